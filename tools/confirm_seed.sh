#!/bin/bash
# usage: tools/confirm_seed.sh <seed-dir> <PROP> [more PROPs...]
# Confirms a seeded change in a scratch worktree (demo fails with it / passes without, full suite passes with it),
# then runs the given checks (quick tier) against the changed tree via VERIF_REPO, and removes the worktree.
set -u
SD=$(realpath "$1"); shift
NAME=$(basename "$SD")
WT=/tmp/cs-$NAME
git -C /repo worktree remove --force "$WT" >/dev/null 2>&1
git -C /repo worktree add --detach "$WT" HEAD >/dev/null 2>&1 || { echo "worktree failed"; exit 2; }
cleanup() { git -C /repo worktree remove --force "$WT" >/dev/null 2>&1; rm -rf "$WT"; }
trap cleanup EXIT
cd "$WT"
RES="$SD/confirm.txt"; : > "$RES"
( cp "$SD/demo.py" "$WT/_seed_demo.py"; /venv/bin/python "$WT/_seed_demo.py" >/dev/null 2>&1; echo "demo_clean_exit=$?" ) >> "$RES"
if ! git apply "$SD/patch.diff" 2>>"$RES"; then echo "patch_applies=no" >> "$RES"; cat "$RES"; exit 3; fi
echo "patch_applies=yes" >> "$RES"
( cp "$SD/demo.py" "$WT/_seed_demo.py"; /venv/bin/python "$WT/_seed_demo.py" >/dev/null 2>&1; echo "demo_changed_exit=$?" ) >> "$RES"
if [ "${SKIP_TESTS:-0}" != "1" ]; then
  T=$(/venv/bin/python -m pytest -q -p no:cacheprovider --timeout=900 -n 8 tests 2>&1 | tail -1)
  echo "tests_with_change=$T" >> "$RES"
fi
cd /verif
for P in "$@"; do
  OUT=$(VERIF_REPO="$WT" VERIF_EVIDENCE_DIR=/tmp/cs-ev-$NAME ./check "$P" --tier "${TIER:-quick}" 2>&1)
  RC=$?
  NV=$(echo "$OUT" | grep -c '^VIOLATION')
  echo "check=$P exit=$RC violations=$NV" >> "$RES"
  echo "$OUT" | grep -A1 '^VIOLATION' | head -8 >> "$RES"
done
rm -rf /tmp/cs-ev-$NAME
cat "$RES"
