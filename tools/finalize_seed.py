#!/venv/bin/python
"""Merges confirm.txt (written by tools/confirm_seed.sh) into seeded/<id>/meta.json."""
import json, os, re, sys
for d in sys.argv[1:]:
    mp = os.path.join(d, "meta.json")
    meta = json.load(open(mp)) if os.path.exists(mp) else {}
    cp = os.path.join(d, "confirm.txt")
    if not os.path.exists(cp):
        continue
    txt = open(cp).read()
    conf = {}
    for k in ("demo_clean_exit", "patch_applies", "demo_changed_exit", "tests_with_change"):
        m = re.search(rf"^{k}=(.*)$", txt, re.M)
        if m:
            conf[k] = m.group(1)
    checks = {}
    for m in re.finditer(r"^check=(\S+) exit=(\d+) violations=(\d+)", txt, re.M):
        checks[m.group(1)] = {"exit": int(m.group(2)), "violation_fingerprints": int(m.group(3))}
    fps = re.findall(r"fingerprint=(\S+)", txt)
    meta["breaks_property"] = meta.get("property")
    meta["confirmed_by_me"] = conf
    meta["what_i_ran"] = "tools/confirm_seed.sh: scratch worktree of /repo HEAD; demo on clean tree (exit 0 expected), git apply patch.diff, demo again (exit 1 expected), full pytest suite with the change (-n 8), then ./check <ID> --tier quick with VERIF_REPO pointing at the changed worktree; worktree removed afterwards"
    meta["checks_quick_tier"] = checks
    meta["caught_by"] = sorted(k for k, v in checks.items() if v["exit"] == 1)
    meta["sample_fingerprints"] = fps[:4]
    json.dump(meta, open(mp, "w"), indent=1)
    print(d, meta["caught_by"])
