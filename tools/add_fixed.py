#!/usr/bin/env python
"""usage: tools/add_fixed.py <id> <property> <commit> <replay-relpath> <what>  -- appends a 'fixed' entry to known_findings.json"""
import json, sys
i, prop, commit, replay, what = sys.argv[1:6]
p = "/verif/known_findings.json"
d = json.load(open(p))
assert not any(e["id"] == i for e in d["findings"]), "duplicate id"
d["findings"].append({"id": i, "property": prop, "status": "fixed", "commit": commit, "what": what, "replay": replay,
                      "line": f"fixed: property={prop} {commit} {what}"})
json.dump(d, open(p, "w"), indent=1, ensure_ascii=False)
open(p, "a").write("\n")
