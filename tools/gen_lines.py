#!/venv/bin/python
"""usage: tools/gen_lines.py <prop> <op> <fingerprint> <out.txt.gz> [maxwidth]
Enumerates every operand pair of widths 1..maxwidth for one operation with the check's own enumerator and writes the
`finding_line` of every failing case with the given fingerprint (sorted, unique, gzip).  Used once per open finding that is
identified by its literal list of failing inputs (DESIGN 2.7, enumerated form); never run by a check."""
import sys, gzip, collections, importlib, multiprocessing as mp
sys.path.insert(0, "/verif")

def work(a):
    prop, op, n, part, parts = a
    from vk import env
    env.setup_paths(); env.import_claripy()
    mod = importlib.import_module(f"vk.props.{prop}")
    lines = []
    class Ctx:
        tier = "thorough"
        def __init__(self): self.classes = collections.Counter(); self.extra = {}; self.samples = []; self.evaluations = 0
        def out_of_time(self): return False
        def count(self, *a): pass
        def case(self, *a, **k): pass
        def fail(self, fp, case, obs): lines.append((fp, mod.finding_line(case, obs)))
    c = Ctx()
    if prop == "c21":
        mod._enum_pairs({"bits": n, "ops": [op], "part": part, "parts": parts}, c)
    else:
        mod.run_shard({"mode": "pairs", "bits": n, "ops": [op], "part": part, "parts": parts}, c)
    return lines

if __name__ == "__main__":
    prop, op, fp, out = sys.argv[1:5]
    maxw = int(sys.argv[5]) if len(sys.argv) > 5 else 4
    jobs = [(prop, op, n, 0, 1) for n in range(1, min(maxw, 3) + 1)] + ([(prop, op, 4, p, 32) for p in range(32)] if maxw >= 4 else [])
    with mp.get_context("spawn").Pool(16) as pool:
        res = pool.map(work, jobs)
    lines = sorted({l for r in res for f, l in r if f == fp})
    other = collections.Counter(f for r in res for f, l in r if f != fp)
    with gzip.open(out, "wt") as f:
        for l in lines:
            f.write(l + "\n")
    print(len(lines), "lines written;", dict(other), "other fingerprints seen")
