#!/venv/bin/python
import json,sys
def short(t):
    if isinstance(t,list):
        if t and t[0]=="var": return t[1]
        if t and t[0]=="const": return str(t[1])
        if t and t[0]=="bvar": return t[1]
        if t and isinstance(t[0],str): return t[0]+"("+",".join(short(x) for x in t[1:])+")"
    return str(t)
for f in sys.argv[1:]:
    d=json.load(open(f))
    print("==",d['fingerprint'], d['case'].get('frontend'), 'reuse' if d['case'].get('reuse') else '')
    for s in d['case'].get('history',[]):
        parts=[s['op'], 's%d'%s.get('s',0)]
        for k in ('cs','e','es','v','extra','n','signed','others','conds','ancestor','exact','keep_original'):
            if k in s and s[k] not in ([],None):
                v=s[k]
                if k in ('cs','es','extra','conds'): v=[short(x) for x in v]
                elif k in ('e',) or (k=='v' and isinstance(v,list)): v=short(v)
                parts.append(f"{k}={v}")
        print("   ", " ".join(map(str,parts)))
    o=dict(d['observation']); o.pop('op',None); print("   ->", str(o)[:400])
