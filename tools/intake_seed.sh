#!/bin/bash
# usage: tools/intake_seed.sh <ID> <a|b> <N> [extra PROPs]   -- copy a sub-agent's change into seeded/<ID>-<N> and confirm it
set -u
ID=$1; X=$2; N=$3; shift 3
SRC=/tmp/seed-out/$ID/$X
DST=/verif/seeded/$ID-$N
[ -f "$SRC/patch.diff" ] || { echo "no patch in $SRC"; exit 2; }
mkdir -p "$DST"; cp "$SRC/patch.diff" "$SRC/demo.py" "$SRC/meta.json" "$DST/"
cd /verif && tools/confirm_seed.sh "$DST" "$ID" "$@"
