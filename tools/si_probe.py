#!/venv/bin/python
"""usage: PYTHONHASHSEED=0 tools/si_probe.py [-w MAXWIDTH] [-p PROP] [op ...]   -- exhaustive soundness probe of SI operations at small widths (development aid)."""
import sys, os, collections, time
sys.path.insert(0, "/verif")
from vk import env
env.setup_paths(); env.import_claripy()
import importlib
args = sys.argv[1:]
W = 3
prop = "c21"
while args and args[0].startswith("-"):
    if args[0] == "-w": W = int(args[1]); args = args[2:]
    elif args[0] == "-p": prop = args[1]; args = args[2:]
mod = importlib.import_module(f"vk.props.{prop}")
from vk import si_gamma as sg
class Ctx:
    tier = "quick"
    def __init__(self): self.fails = collections.Counter(); self.ex = {}; self.classes = collections.Counter(); self.extra = {}; self.samples = []; self.evaluations = 0; self.counters = collections.Counter()
    def out_of_time(self): return False
    def count(self, k, n=1): self.counters[k] += n
    def fail(self, fp, case, obs):
        self.fails[fp] += 1
        self.ex.setdefault(fp, []).append((case, obs))
    def case(self, *a, **k): self.evaluations += 1
ops = args or list(mod.ALL_PAIR_OPS) + (["unary"] if prop == "c21" else ["queries", "lub3"])
t0 = time.time()
for op in ops:
    c = Ctx()
    for n in range(1, W + 1):
        if prop == "c22":
            if op == "queries":
                mod.run_shard({"mode": "queries", "bits": n}, c)
            elif op == "lub3":
                if n <= 2:
                    mod.run_shard({"mode": "triples", "bits": n, "part": 0, "parts": 1}, c)
            else:
                mod.run_shard({"mode": "pairs", "bits": n, "ops": [op], "part": 0, "parts": 1}, c)
        elif op == "unary":
            mod._enum_unary({"bits": n}, c)
        else:
            mod._enum_pairs({"bits": n, "ops": [op], "part": 0, "parts": 1}, c)
    if not c.fails:
        print(f"{op}: sound on widths 1..{W}")
    for fp, k in sorted(c.fails.items()):
        print(f"{fp}: {k}")
        for case, obs in c.ex[fp][:int(os.environ.get('SHOW', 3))]:
            if 'sis' in case:
                print("     ", case['op'], [sg.describe(sg.make(case['bits'], tuple(t) if t != "empty" else t)) for t in case['sis']], '->', obs)
                continue
            a = sg.describe(sg.make(case['bits'], tuple(case['a'])))
            b = sg.describe(sg.make(case['bits'], tuple(case['b']))) if case.get('b') else None
            print(f"     {case['op']}{'' if case.get('param') is None else case['param']}  a={a} b={b} -> {obs}")
print(f"[{time.time()-t0:.1f}s]")
