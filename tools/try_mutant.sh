#!/bin/bash
# usage: tools/try_mutant.sh <name> <file-relative-to-repo> <python-expr-transforming-s> <PROP> [PROP...]
# Applies a textual mutation in a scratch worktree, runs the quick checks against it via VERIF_REPO, removes the worktree.
set -u
NAME=$1; FILE=$2; EXPR=$3; shift 3
WT=/tmp/mut-$NAME
git -C /repo worktree remove --force "$WT" >/dev/null 2>&1
git -C /repo worktree add --detach "$WT" HEAD >/dev/null 2>&1 || { echo "worktree failed"; exit 2; }
trap 'git -C /repo worktree remove --force "$WT" >/dev/null 2>&1; rm -rf "$WT" /tmp/mut-ev-$NAME' EXIT
python3 - "$WT/$FILE" "$EXPR" <<'PY' || { echo "mutation did not apply"; exit 3; }
import sys
p, expr = sys.argv[1], sys.argv[2]
s = open(p).read()
s2 = eval(expr, {"s": s})
assert s2 != s, "no change"
open(p, "w").write(s2)
PY
( cd "$WT" && git diff --stat | tail -1 )
cd /verif
for P in "$@"; do
  OUT=$(VERIF_REPO="$WT" VERIF_EVIDENCE_DIR=/tmp/mut-ev-$NAME ./check "$P" --tier "${TIER:-quick}" 2>&1)
  RC=$?
  echo "mutant=$NAME check=$P exit=$RC violations=$(echo "$OUT" | grep -c '^VIOLATION')"
  echo "$OUT" | grep -A1 '^VIOLATION' | head -${SHOW:-4}
  [ $RC -eq 2 ] && echo "$OUT" | tail -5
done
