#!/venv/bin/python
"""atheris (libFuzzer) target for C04: bytes -> well-typed BV/Bool operation tree (the decoder is total: every byte string
decodes to some well-typed tree, so the fuzzer spends its time in claripy, not in input validation) -> build through the public
API -> C04's exception-type oracle.  Findings do not stop the campaign: the offending tree is appended to <out>/findings.jsonl
and fuzzing continues (libFuzzer would otherwise end at the first shallow defect).

usage: c04_target.py <out_dir> [libFuzzer flags...]      (run by vk/props/c04.py; coverage is collected for claripy only)
"""
import json
import os
import sys

VERIF = os.path.dirname(os.path.dirname(os.path.abspath(__file__)))
sys.path.insert(0, VERIF)
from vk import env  # noqa: E402

env.setup_paths()
import atheris  # noqa: E402

with atheris.instrument_imports(include=["claripy.simplifications", "claripy.operations", "claripy.ast", "claripy.backends.backend_concrete", "claripy.algorithm"]):
    env.import_claripy()

from vk import exprcheck, ir  # noqa: E402
from vk.props import c04  # noqa: E402

OUT = sys.argv[1]
os.makedirs(OUT, exist_ok=True)
WIDTHS = (1, 2, 3, 7, 8, 9, 16, 31, 32, 33, 63, 64, 65, 128, 256)
STATS = {"execs": 0, "findings": 0, "trees": 0}
SEEN = set()


def consts(fdp, n):
    m = (1 << n) - 1
    k = fdp.ConsumeIntInRange(0, 15)
    pool = (0, 1, 2, m, m - 1, 1 << (n - 1), (1 << (n - 1)) - 1, n - 1, n, n + 1, 0xFF & m, 0x80 & m, 3 & m)
    if k < len(pool):
        return ("const", pool[k] & m, n)
    return ("const", fdp.ConsumeIntInRange(0, m), n)


def bv(fdp, n, d):
    if d <= 0 or fdp.remaining_bytes() == 0:
        return ("var", f"v{fdp.ConsumeIntInRange(0, 1)}_{n}", n) if fdp.ConsumeBool() else consts(fdp, n)
    k = fdp.ConsumeIntInRange(0, 27)
    if k < 15:
        return (ir.BV_BIN[k], bv(fdp, n, d - 1), bv(fdp, n, d - 1))
    if k == 15:
        return ("bvneg", bv(fdp, n, d - 1))
    if k == 16:
        return ("bvnot", bv(fdp, n, d - 1))
    if k == 17 and n % 8 == 0:
        return ("bswap", bv(fdp, n, d - 1))
    if k == 18 and n >= 2:
        a = fdp.ConsumeIntInRange(1, n - 1)
        return ("concat", bv(fdp, a, d - 1), bv(fdp, n - a, d - 1))
    if k == 19:
        w = WIDTHS[fdp.ConsumeIntInRange(0, len(WIDTHS) - 1)]
        if w > n:
            lo = fdp.ConsumeIntInRange(0, w - n)
            return ("extract", lo + n - 1, lo, bv(fdp, w, d - 1))
    if k in (20, 21) and n >= 2:
        e = fdp.ConsumeIntInRange(0, n - 1)
        return ("zext" if k == 20 else "sext", e, bv(fdp, n - e, d - 1))
    if k == 22:
        return ("ite", boolean(fdp, d - 1), bv(fdp, n, d - 1), bv(fdp, n, d - 1))
    if k in (23, 24, 25):
        # shifts / rotates by amounts near the width and near powers of two
        amount = (n - 1, n, n + 1, 1 << max(n.bit_length() - 1, 0), (1 << n) - 1, 0)[fdp.ConsumeIntInRange(0, 5)] & ((1 << n) - 1)
        op = ("bvshl", "bvlshr", "bvashr", "rotl", "rotr")[fdp.ConsumeIntInRange(0, 4)]
        return (op, bv(fdp, n, d - 1), ("const", amount, n))
    return ("var", f"v{fdp.ConsumeIntInRange(0, 1)}_{n}", n) if fdp.ConsumeBool() else consts(fdp, n)


def boolean(fdp, d):
    k = fdp.ConsumeIntInRange(0, 15)
    if d <= 0 or k < 10:
        n = WIDTHS[fdp.ConsumeIntInRange(0, len(WIDTHS) - 1)]
        return (ir.BV_CMP[k % len(ir.BV_CMP)], bv(fdp, n, max(d - 1, 0)), bv(fdp, n, max(d - 1, 0)))
    if k == 10:
        return ("not", boolean(fdp, d - 1))
    if k == 11:
        return ("and", boolean(fdp, d - 1), boolean(fdp, d - 1))
    if k == 12:
        return ("or", boolean(fdp, d - 1), boolean(fdp, d - 1))
    if k == 13:
        return ("bvar", f"p{fdp.ConsumeIntInRange(0, 1)}")
    return ("bconst", fdp.ConsumeBool())


def TestOneInput(data):
    fdp = atheris.FuzzedDataProvider(data)
    spell = fdp.ConsumeIntInRange(0, 2**16)
    depth = fdp.ConsumeIntInRange(1, 4)
    if fdp.ConsumeIntInRange(0, 3) == 0:
        tree = boolean(fdp, depth)
    else:
        tree = bv(fdp, WIDTHS[fdp.ConsumeIntInRange(0, len(WIDTHS) - 1)], depth)
    STATS["execs"] += 1
    key = hash((tree, spell))
    if key not in SEEN:
        SEEN.add(key)
        STATS["trees"] += 1
    if STATS["execs"] % 200 == 0:
        exprcheck.reset_caches()
    try:
        fails, _info = c04.classify({"sort": "bv", "tree": tree, "spell": spell})
    except MemoryError:
        fails = [("MemoryError@outside-frame", {"note": "MemoryError escaped"})]
    if fails:
        STATS["findings"] += 1
        with open(os.path.join(OUT, "findings.jsonl"), "a") as f:
            f.write(json.dumps({"case": {"sort": "bv", "tree": tree, "spell": spell}, "fails": fails}) + "\n")
    if STATS["execs"] % 500 == 0:
        with open(os.path.join(OUT, "stats.json"), "w") as f:
            json.dump(STATS, f)


if __name__ == "__main__":
    atheris.Setup([sys.argv[0], *sys.argv[2:]], TestOneInput)
    try:
        atheris.Fuzz()
    finally:
        with open(os.path.join(OUT, "stats.json"), "w") as f:
            json.dump(STATS, f)
