#!/venv/bin/python
"""Regenerates MANIFEST.json from the table below (single source of truth for what is registered)."""
import json, os, sys
HERE = os.path.dirname(os.path.abspath(__file__))
sys.path.insert(0, HERE)
from manifest_table import CHECKS, NOT_APPLICABLE  # noqa: E402

props = [json.loads(l) for l in open(os.path.join(HERE, "properties.jsonl"))]
ids = [p["id"] for p in props]
checks = []
for pid in ids:
    if pid not in CHECKS:
        continue
    c = CHECKS[pid]
    checks.append({
        "property_id": pid,
        "quick_cmd": f"./check {pid} --tier quick",
        "thorough_cmd": f"./check {pid} --tier thorough",
        "evidence_file": f"evidence/{pid}.json",
        "replay_cmd_template": f"./check {pid} --replay {{path}}",
        "engine": "vk",
        "level_claimed": {"category": c["level"], "text": c["text"], "design_ref": c.get("design_ref", f"DESIGN.md section 4, {pid}")},
        "level_note": c["note"],
        "technique": c["technique"],
    })
na = [{"property_id": pid, "reason": NOT_APPLICABLE.get(pid, "check not built yet in this round (planned, see DESIGN.md section 9)")} for pid in ids if pid not in CHECKS]
m = {
    "version": 1,
    "setup_cmd": "./setup.sh",
    "hooks": {
        "guard": "CLARIPY_VERIF",
        "enable": "no source hooks: checks import claripy from /repo (pure Python) and patch third-party z3.Solver / module globals from outside",
        "baseline_off_cmd": "cd /repo && /venv/bin/python -m pytest -ra -q -p no:cacheprovider --timeout=900 --continue-on-collection-errors",
        "source_commits": [],
        "add_only": True,
    },
    "engines": [{"name": "vk", "path": "vk/", "serves_properties": [c["property_id"] for c in checks],
                 "kind_free_text": "property-based testing: Hypothesis strategies / state machines, exhaustive enumerators for finite sub-domains, fault injection, controlled scheduler, atheris; explicit reference oracles"}],
    "checks": checks,
    "not_applicable": na,
    "notes": "All checks: ./check <ID> --tier quick|thorough; exit 0 held / 1 VIOLATION / 2 harness error. Known findings: known_findings.json.",
}
json.dump(m, open(os.path.join(HERE, "MANIFEST.json"), "w"), indent=1)
import jsonschema
sys.path.append(os.path.join(HERE, ".deps"))
jsonschema.validate(m, json.load(open(os.path.join(HERE, "schemas", "MANIFEST.schema.json"))))
print("MANIFEST ok:", len(checks), "checks,", len(na), "not claimed")
