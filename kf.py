#!/venv/bin/python
"""Helper to append entries to known_findings.json (used by hand while triaging; never at check run time)."""
import json, sys
p = "/verif/known_findings.json"
d = json.load(open(p))
kind = sys.argv[1]
if kind == "fixed":
    _, _, prop, commit, fid, what = sys.argv
    d["findings"].append({"id": fid, "property": prop, "status": "fixed", "commit": commit, "what": what,
                          "line": f"fixed: property={prop} {commit} {what}"})
json.dump(d, open(p, "w"), indent=1)
