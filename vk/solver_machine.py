"""The solver history interpreter shared by C10-C18 and C20, with the brute-force model-set reference.

A *history* is a JSON-able list of steps; every step names the live solver it acts on by an index that is
reduced modulo the number of live solvers at run time (so deleting steps keeps a history well-formed, which
is what ddmin needs).  After every step the answer just obtained is checked against the model set of that
solver, which is maintained from the IR constraints the harness added -- never from the solver under test.
"""

from __future__ import annotations

import pickle

import claripy
import numpy as np
from hypothesis import strategies as st

from . import build_claripy, exprcheck, ir, sem_np

W = 4
BVVARS = ("a", "b", "c", "d")
SPACE_VARS = [(n, W) for n in BVVARS] + [("p", 0)]
_SPACE = None


def space():
    global _SPACE
    if _SPACE is None:
        _SPACE = sem_np.Space(SPACE_VARS)
    return _SPACE


FACTORIES = {
    "Solver": lambda: claripy.Solver(),
    "SolverCacheless": lambda: claripy.SolverCacheless(),
    "SolverComposite": lambda: claripy.SolverComposite(),
    "SolverReplacement": lambda: claripy.SolverReplacement(),
    "SolverReplacement-noauto": lambda: claripy.SolverReplacement(auto_replace=False),
    "SolverHybrid": lambda: claripy.SolverHybrid(),
    "Solver-track": lambda: claripy.Solver(track=True),
    "SolverComposite-track": lambda: claripy.SolverComposite(track=True),
    "SolverHybrid-track": lambda: claripy.SolverHybrid(track=True),
}
EXACT_FRONTENDS = tuple(FACTORIES)


def bld(t):
    return build_claripy.build(ir.T(t))


def _mask(n):
    return (1 << n) - 1


class Live:
    __slots__ = ("solver", "M", "added", "name", "added_objs", "twin")

    def __init__(self, solver, M, added, name, added_objs=None):
        self.solver, self.M, self.added, self.name = solver, M, added, name
        self.added_objs = list(added_objs or [])
        self.twin = None  # an unpickled copy that receives the same operations; its answers must equal the original's


class Result:
    def __init__(self):
        self.fails = []
        self.steps_run = 0
        self.stats = {"adds": 0, "queries": 0, "unsat_reached": 0, "extras": 0, "repeat_queries": 0, "branches": 0, "maint": 0,
                      "pickles": 0, "bridging": 0, "true_answers": 0}
        self.ops = []


class Machine:
    """Interprets one history against one frontend class."""

    def __init__(self, frontend, reuse=False, approx=False):
        self.frontend = frontend
        self.reuse = reuse
        self.approx = approx  # approximate mode: containment instead of equality
        self.sp = space()
        self.res = Result()
        self.live = []
        self._seen_queries = set()
        self.faults = None  # set to True by C17: route every call through the fault window
        self.checks_per_step = {}
        self.fault_step = None

    # ------------------------------------------------------------------ reference helpers
    def _extra_mask(self, extras):
        m = self.sp.full()
        for t in extras:
            m = m & self.sp.ev(ir.T(t))
        return m

    def _values(self, e_tree, mask):
        vals = self.sp.ev(ir.T(e_tree))[mask]
        return np.unique(vals)

    def _is_const(self, tree):
        v = self.sp.ev(ir.T(tree))
        return bool((v == v[0]).all()), (v[0].item() if v.size else None)

    def fail(self, clause, step_i, step, obs):
        fp = f"{self.frontend}:{step['op']}:{clause}"
        o = {"step": step_i, "op": step, **obs}
        self.res.fails.append((fp, o))

    # ------------------------------------------------------------------ running
    def run(self, history, stop_on_fail=True):
        old_reuse = claripy.backends.z3.reuse_z3_solver
        claripy.backends.z3.reuse_z3_solver = self.reuse
        try:
            s0 = FACTORIES[self.frontend]()
            self.live = [Live(s0, self.sp.full(), [], "s0")]
            for i, step in enumerate(history):
                self.res.steps_run += 1
                self.step(i, step)
                if self.res.fails and stop_on_fail:
                    break
        finally:
            claripy.backends.z3.reuse_z3_solver = old_reuse
        return self.res

    def _pick(self, step):
        return self.live[step.get("s", 0) % len(self.live)]

    def _call(self, i, step, fn, allow_unsat):
        """Runs fn(); returns ("ok", value) | ("unsat", None) | ("fail", None) | ("faulted", None)."""
        if self.faults is not None:
            return self._call_with_faults(i, step, fn, allow_unsat)
        self._last = self._call_plain(i, step, fn, allow_unsat)
        return self._last

    def _call_with_faults(self, i, step, fn, allow_unsat):
        from . import faults

        before = faults.S.count
        fired_before = faults.S.fired
        with faults.window():
            try:
                value = fn()
                exc = None
            except BaseException as e:  # noqa: BLE001 - classified below
                value, exc = None, e
        self.checks_per_step[i] = self.checks_per_step.get(i, 0) + (faults.S.count - before)
        if faults.S.fired and not fired_before:
            # the injected failure happened inside this operation: it must surface as a claripy error
            self.fault_step = i
            if exc is None:
                self.fail("fault-swallowed-answer-returned", i, step, {"answer": repr(value)[:200], "kind": faults.S.kind, "reason": faults.S.reason})
                return "fail", None
            if isinstance(exc, claripy.errors.UnsatError):
                self.fail("fault-turned-into-UnsatError", i, step, {"kind": faults.S.kind, "reason": faults.S.reason})
                return "fail", None
            if not isinstance(exc, claripy.errors.ClaripyError):
                self.fail("fault-raises-non-claripy:" + type(exc).__name__, i, step, {"exc": repr(exc)[:200], "kind": faults.S.kind, "reason": faults.S.reason})
                return "fail", None
            return "faulted", None
        if exc is None:
            return "ok", value
        return self._call_plain(i, step, lambda: (_ for _ in ()).throw(exc), allow_unsat)

    def _call_plain(self, i, step, fn, allow_unsat):
        try:
            return "ok", fn()
        except claripy.errors.UnsatError:
            if not allow_unsat:
                self.fail("UnsatError-on-satisfiable", i, step, {})
                return "fail", None
            return "unsat", None
        except claripy.errors.ClaripyFrontendError as e:
            if self.approx:
                return "declined", None
            self.fail("raises:" + exprcheck.exc_fingerprint(e), i, step, {"exc": repr(e)[:200]})
            return "fail", None
        except NotImplementedError:
            return "declined", None
        except Exception as e:  # noqa: BLE001
            self.fail("raises:" + exprcheck.exc_fingerprint(e), i, step, {"exc": repr(e)[:200]})
            return "fail", None

    def step(self, i, step):
        lv = self._pick(step)
        n_live = len(self.live)
        self._last = None
        self._step_body(i, step)
        if lv.twin is not None and not self.res.fails and self.faults is None:
            self._twin_step(i, step, lv, n_live)

    def _twin_step(self, i, step, lv, n_live):
        """The unpickled copy gets the same operation; where the answer is determined by the solver's state (not by a free choice
        among feasible values) it must equal the original's."""
        op = step["op"]
        tw = lv.twin
        last = self._last
        if op == "add":
            if last is not None and last[0] == "ok":
                cs = lv.added_objs[-len(step["cs"]):]
                try:
                    tw.add(cs if (len(cs) != 1 or step.get("as_list")) else cs[0])
                except Exception as e:  # noqa: BLE001
                    self.fail("twin-raises:" + exprcheck.exc_fingerprint(e), i, step, {"exc": repr(e)[:200]})
            return
        if op in ("simplify", "downsize", "finalize"):
            fn = getattr(tw, op, None)
            if fn is not None and last is not None and last[0] == "ok":
                try:
                    fn()
                except Exception as e:  # noqa: BLE001
                    self.fail("twin-raises:" + exprcheck.exc_fingerprint(e), i, step, {"exc": repr(e)[:200]})
            return
        if op == "branch":
            if len(self.live) > n_live:
                self.live[-1].twin = tw.branch()
            return
        if op not in ("sat", "eval", "batch", "min", "max", "solution", "is_true", "is_false") or last is None:
            return
        kw = {"exact": step["exact"]} if "exact" in step else {}
        extras = tuple(bld(ir.T(t)) for t in step.get("extra", ()))
        if not (lv.M & self._extra_mask([ir.T(t) for t in step.get("extra", ())])).any():
            # on an unsatisfiable set an UnsatError, an empty result and False are all correct answers (DESIGN 3.2); which one
            # comes depends on whether unsatisfiability is already cached, and caches are not part of what a pickle promises
            self.res.stats["twin_skipped_unsat"] = self.res.stats.get("twin_skipped_unsat", 0) + 1
            try:
                self._issue_blind(step, tw, extras, kw)
            except claripy.errors.ClaripyError:
                pass
            return

        def norm_seq(r, n):
            r = list(r)
            return frozenset(tuple(x) if isinstance(x, (list, tuple)) else x for x in r) if len(r) < n else None

        try:
            if op == "sat":
                mine = bool(tw.satisfiable(extra_constraints=extras, **kw))
                theirs = bool(last[1]) if last[0] == "ok" else last[0]
            elif op in ("is_true", "is_false"):
                mine = bool(getattr(tw, op)(bld(ir.T(step["e"])), extra_constraints=extras, **kw))
                theirs = bool(last[1]) if last[0] == "ok" else last[0]
            elif op == "eval":
                mine = norm_seq(tw.eval(bld(ir.T(step["e"])), step["n"], extra_constraints=extras, **kw), step["n"])
                theirs = norm_seq(last[1], step["n"]) if last[0] == "ok" else last[0]
            elif op == "batch":
                mine = norm_seq(tw.batch_eval([bld(ir.T(t)) for t in step["es"]], step["n"], extra_constraints=extras, **kw), step["n"])
                theirs = norm_seq(last[1], step["n"]) if last[0] == "ok" else last[0]
            elif op in ("min", "max"):
                n = ir.width(ir.T(step["e"]))
                mine = int(getattr(tw, op)(bld(ir.T(step["e"])), extra_constraints=extras, signed=bool(step.get("signed")), **kw)) & _mask(n)
                theirs = (int(last[1]) & _mask(n)) if last[0] == "ok" else last[0]
            else:  # solution
                e_t = ir.T(step["e"])
                v_spec = step["v"]
                v = bld(ir.T(v_spec)) if isinstance(v_spec, (list, tuple)) else (claripy.BVV(int(v_spec), ir.width(e_t)) if step.get("v_as_bvv") else int(v_spec))
                mine = bool(tw.solution(bld(e_t), v, extra_constraints=extras, **kw))
                theirs = bool(last[1]) if last[0] == "ok" else last[0]
        except claripy.errors.UnsatError:
            mine = "unsat"
            theirs = last[0] if last[0] != "ok" else ("ok", repr(last[1])[:80])
        except (claripy.errors.ClaripyFrontendError, NotImplementedError):
            mine = "declined"
            theirs = last[0] if last[0] != "ok" else ("ok", repr(last[1])[:80])
        except Exception as e:  # noqa: BLE001
            self.fail("twin-raises:" + exprcheck.exc_fingerprint(e), i, step, {"exc": repr(e)[:200]})
            return
        self.res.stats["twin_compared"] = self.res.stats.get("twin_compared", 0) + 1
        if mine is None or theirs is None:
            return  # a free choice among feasible values: nothing to compare
        if mine != theirs:
            show = lambda v: sorted(v, key=repr)[:12] if isinstance(v, frozenset) else v  # noqa: E731
            self.fail("unpickled-copy-answers-differently", i, step, {"original": show(theirs), "unpickled": show(mine)})

    def _step_body(self, i, step):
        op = step["op"]
        lv = self._pick(step)
        s = lv.solver
        kw = {}
        if "exact" in step:
            kw["exact"] = step["exact"]
        extras_t = [ir.T(t) for t in step.get("extra", ())]
        extras = tuple(bld(t) for t in extras_t)
        if extras_t:
            self.res.stats["extras"] += 1
        qkey = (id(s), op, runner_canon(step.get("e")), step.get("signed"))
        if op in ("eval", "min", "max", "solution", "batch"):
            if qkey in self._seen_queries:
                self.res.stats["repeat_queries"] += 1
            self._seen_queries.add(qkey)

        if op == "add":
            cs_t = [ir.T(t) for t in step["cs"]]
            cs = [bld(t) for t in cs_t]
            if step.get("tag") is not None:
                from . import annos

                cs = [c.annotate(annos.Elim(step["tag"])) for c in cs]  # provenance tag: same predicate, different object
            lv.added_objs.extend(cs)
            arg = cs if (len(cs) != 1 or step.get("as_list")) else cs[0]
            st_, _ = self._call(i, step, lambda: s.add(arg), allow_unsat=False)
            if st_ == "fail":
                return
            had = bool(lv.M.any())
            vars_before = set()
            for t in lv.added:
                vars_before |= set(ir.variables(t))
            for t in cs_t:
                lv.M = lv.M & self.sp.ev(t)
                lv.added.append(t)
                vs = set(ir.variables(t))
                if len(vs) >= 2 and vs & vars_before and vs - vars_before:
                    self.res.stats["bridging"] += 1
            self.res.stats["adds"] += 1
            if had and not lv.M.any():
                self.res.stats["unsat_reached"] += 1
            return

        if op in ("simplify", "downsize", "z3downsize", "finalize"):
            self.res.stats["maint"] += 1
            if op == "z3downsize":
                fn = claripy.backends.z3.downsize
            else:
                fn = getattr(s, op, None)
                if fn is None:
                    return
            before = self._constraints_models(s) if op == "simplify" else None
            st_, _ = self._call(i, step, fn, allow_unsat=False)
            if st_ != "ok":
                return
            if op == "simplify" and before is not None:
                self._check_constraints_models(i, step, lv, before)
            return

        if op == "branch":
            if len(self.live) >= self.MAX_LIVE:
                return
            st_, b = self._call(i, step, s.branch, allow_unsat=False)
            if st_ == "ok":
                self.live.append(Live(b, lv.M.copy(), list(lv.added), f"s{len(self.live)}", lv.added_objs))
                self.res.stats["branches"] += 1
            return

        if op == "pickle":
            st_, b = self._call(i, step, lambda: pickle.loads(pickle.dumps(s, -1)), allow_unsat=False)
            if st_ == "ok":
                self.res.stats["pickles"] += 1
                if step.get("twin"):
                    lv.twin = b
                elif step.get("keep_original") and len(self.live) < 6:
                    self.live.append(Live(b, lv.M.copy(), list(lv.added), f"s{len(self.live)}", lv.added_objs))
                else:
                    lv.solver = b
            return

        if op == "pickle_all":
            # every live solver in ONE pickle: objects shared between them (copy-on-write children of a composite, Z3 solver
            # handles, caches) are shared between the copies too, and all of them are used afterwards
            st_, objs = self._call(i, step, lambda: pickle.loads(pickle.dumps([l.solver for l in self.live], -1)), allow_unsat=False)
            if st_ == "ok":
                self.res.stats["pickles"] += 1
                for l, o in zip(self.live, objs, strict=True):
                    l.solver = o
            return

        if op in ("split", "combine", "merge", "blank_copy"):
            self._algebra(i, step, lv)
            return

        # ---- queries
        self.res.stats["queries"] += 1
        M = lv.M & self._extra_mask(extras_t)
        nonempty = bool(M.any())
        if (self.approx or self.frontend.startswith(("SolverReplacement", "SolverHybrid"))) and not nonempty and op != "sat":
            # over-approximation: nothing can be concluded from answers about an unsatisfiable set.
            # Replacement-based frontends answer queries whose expression became concrete through a replacement (x == 2
            # was added, so x is 2) without consulting the solver, exactly like the concrete-expression shortcut of every
            # frontend; on an unsatisfiable set such answers are accepted (satisfiable() itself is still checked).
            try:
                self._issue_blind(step, s, extras, kw)
            except claripy.errors.ClaripyError:
                pass
            return

        if op == "sat":
            st_, r = self._call(i, step, lambda: s.satisfiable(extra_constraints=extras, **kw), allow_unsat=False)
            if st_ != "ok":
                return
            if self.approx:
                if nonempty and r is False:
                    self.fail("approx-unsat-on-satisfiable", i, step, {"answer": r})
            elif bool(r) != nonempty:
                self.fail("wrong-satisfiable", i, step, {"answer": r, "expected": nonempty, "models": int(M.sum())})
            return

        if op in ("is_true", "is_false"):
            e_t = ir.T(step["e"])
            e = bld(e_t)
            fn = s.is_true if op == "is_true" else s.is_false
            st_, r = self._call(i, step, lambda: fn(e, extra_constraints=extras, **kw), allow_unsat=True)
            if st_ != "ok" or not nonempty:
                return
            if r is True or (r is not False and r is not None and bool(r)):
                self.res.stats["true_answers"] += 1
                vals = self.sp.ev(e_t)[M]
                holds = bool(vals.all()) if op == "is_true" else bool((~vals).all())
                if not holds:
                    k = int(np.flatnonzero(M & (~self.sp.ev(e_t) if op == "is_true" else self.sp.ev(e_t)))[0])
                    self.fail("claims-truth-that-does-not-hold", i, step, {"answer": r, "counter_model": self.sp.assignment(k)})
            return

        if op in ("eval", "eval_to_ast"):
            e_t = ir.T(step["e"])
            e = bld(e_t)
            n = step["n"]
            V = self._values(e_t, M)
            constq, cval = self._is_const(e_t)
            if op == "eval_to_ast":
                if ir.is_bool(e_t):
                    return
                st_, r = self._call(i, step, lambda: s.eval_to_ast(e, n, extra_constraints=extras, **kw), allow_unsat=not nonempty)
                if st_ == "ok":
                    if not all(isinstance(x, claripy.ast.BV) and x.op == "BVV" and x.length == ir.width(e_t) for x in r):
                        self.fail("eval_to_ast-not-BVV", i, step, {"answer": repr(r)[:200]})
                        return
                    r = tuple(x.args[0] for x in r)
            else:
                st_, r = self._call(i, step, lambda: s.eval(e, n, extra_constraints=extras, **kw), allow_unsat=not nonempty)
            if st_ != "ok":
                return
            self._check_values(i, step, r, V, n, nonempty, constq, cval, ir.is_bool(e_t), None if ir.is_bool(e_t) else ir.width(e_t))
            return

        if op == "batch":
            es_t = [ir.T(t) for t in step["es"]]
            es = [bld(t) for t in es_t]
            n = step["n"]
            st_, r = self._call(i, step, lambda: s.batch_eval(es, n, extra_constraints=extras, **kw), allow_unsat=not nonempty)
            if st_ != "ok":
                return
            cols = [self.sp.ev(t)[M].astype(np.uint64) for t in es_t]
            rows = set(zip(*[c.tolist() for c in cols], strict=True)) if cols and cols[0].size else set()
            got = [tuple(int(x) for x in row) for row in r]
            if not nonempty:
                if got and not all(self._is_const(t)[0] for t in es_t):
                    self.fail("batch-values-on-unsat", i, step, {"answer": got[:5]})
                return
            if len(set(got)) != len(got):
                self.fail("batch-duplicates", i, step, {"answer": got[:8]})
            bad = [g for g in got if g not in rows]
            if bad and not self.approx:
                self.fail("batch-infeasible-tuple", i, step, {"infeasible": bad[:4], "n_feasible": len(rows)})
            if not self.approx and len(got) != min(n, len(rows)):
                self.fail("batch-wrong-count", i, step, {"got": len(got), "expected": min(n, len(rows))})
            return

        if op in ("min", "max"):
            e_t = ir.T(step["e"])
            e = bld(e_t)
            signed = bool(step.get("signed"))
            fn = s.min if op == "min" else s.max
            constq, cval = self._is_const(e_t)
            st_, r = self._call(i, step, lambda: fn(e, extra_constraints=extras, signed=signed, **kw), allow_unsat=not nonempty)
            if st_ != "ok":
                return
            n = ir.width(e_t)
            if not nonempty:
                if not (constq and (int(r) & _mask(n)) == cval):
                    self.fail("extremum-on-unsat", i, step, {"answer": r})
                return
            V = self._values(e_t, M).astype(np.int64)
            key = (lambda v: v - (1 << n) if v >> (n - 1) else v) if signed else (lambda v: v)
            vs = [int(v) for v in V]
            want = min(vs, key=key) if op == "min" else max(vs, key=key)
            got = int(r) & _mask(n)
            if self.approx:
                ok = key(got) <= key(want) if op == "min" else key(got) >= key(want)
                if not ok:
                    self.fail("approx-extremum-excludes-value", i, step, {"answer": r, "true_extremum": want})
            elif got != want:
                self.fail("wrong-extremum", i, step, {"answer": r, "expected": want, "signed": signed, "n_values": len(vs)})
            return

        if op == "solution":
            e_t = ir.T(step["e"])
            e = bld(e_t)
            v_spec = step["v"]
            if isinstance(v_spec, (list, tuple)):
                v_t = ir.T(v_spec)
                v = bld(v_t)
                feas = bool((self.sp.ev(e_t)[M] == self.sp.ev(v_t)[M]).any())
                both_const = self._is_const(e_t)[0] and self._is_const(v_t)[0]
            else:
                v = int(v_spec)
                if step.get("v_as_bvv"):
                    v = claripy.BVV(v, ir.width(e_t))
                feas = bool((self.sp.ev(e_t)[M] == np.uint64(int(v_spec) & _mask(ir.width(e_t)))).any())
                both_const = self._is_const(e_t)[0]
            st_, r = self._call(i, step, lambda: s.solution(e, v, extra_constraints=extras, **kw), allow_unsat=not nonempty)
            if st_ != "ok":
                return
            if not nonempty:
                if r and not both_const:
                    self.fail("solution-true-on-unsat", i, step, {"answer": r})
                return
            if self.approx:
                if feas and not r:
                    self.fail("approx-solution-excludes-value", i, step, {"answer": r})
            elif bool(r) != feas:
                self.fail("wrong-solution", i, step, {"answer": r, "expected": feas})
            return

        if op == "unsat_core":
            self._unsat_core(i, step, lv, extras, extras_t)
            return

        raise ValueError(f"unknown op {op}")

    def _issue_blind(self, step, s, extras, kw):
        """Issues the query without checking the answer (it still exercises caches and crash-freedom)."""
        op = step["op"]
        if op in ("eval", "eval_to_ast"):
            s.eval(bld(step["e"]), step["n"], extra_constraints=extras, **kw)
        elif op == "batch":
            s.batch_eval([bld(t) for t in step["es"]], step["n"], extra_constraints=extras, **kw)
        elif op in ("min", "max"):
            getattr(s, op)(bld(step["e"]), extra_constraints=extras, signed=bool(step.get("signed")), **kw)
        elif op in ("is_true", "is_false"):
            getattr(s, op)(bld(step["e"]), extra_constraints=extras, **kw)

    # ------------------------------------------------------------------ merge / combine / split / blank_copy
    MAX_LIVE = 8

    def _push(self, solver, M, added, added_objs=None):
        if len(self.live) < self.MAX_LIVE:
            self.live.append(Live(solver, M, added, f"s{len(self.live)}", added_objs))

    def _algebra(self, i, step, lv):
        op = step["op"]
        s = lv.solver
        self.res.stats["algebra"] = self.res.stats.get("algebra", 0) + 1
        if op == "blank_copy":
            st_, b = self._call(i, step, s.blank_copy, allow_unsat=False)
            if st_ == "ok":
                self._push(b, self.sp.full(), [])
            return
        if op in ("combine", "merge"):
            # operands: distinct solvers of the same class, none of them the receiver (what callers such as state
            # merging do; merging a solver with itself or with a child solver of another class is not a documented use)
            others = []
            for j in step["others"]:
                o = self.live[j % len(self.live)]
                if o is not lv and type(o.solver) is type(s) and all(o is not x for x in others):
                    others.append(o)
            if not others:
                return
        if op == "combine":
            st_, r = self._call(i, step, lambda: s.combine([o.solver for o in others]), allow_unsat=False)
            if st_ != "ok":
                return
            M = lv.M.copy()
            added = list(lv.added)
            objs = list(lv.added_objs)
            for o in others:
                M &= o.M
                added += o.added
                objs += o.added_objs
            self._push(r, M, added, objs)
            return
        if op == "merge":
            conds_t = [ir.T(c) for c in step["conds"]][: len(others) + 1]
            while len(conds_t) < len(others) + 1:
                conds_t.append(("bconst", True))
            conds = [bld(c) for c in conds_t]
            anc = None
            if step.get("ancestor") is not None:
                anc = self.live[step["ancestor"] % len(self.live)]
                if type(anc.solver) is not type(s):
                    anc = None
            st_, r = self._call(i, step, lambda: s.merge([o.solver for o in others], conds, common_ancestor=anc.solver if anc else None), allow_unsat=False)
            if st_ != "ok":
                return
            try:
                _flag, merged = r
            except (TypeError, ValueError):
                self.fail("merge-result-shape", i, step, {"answer": repr(r)[:200]})
                return
            if anc is not None:
                any_c = self.sp.bconst(False)
                for c in conds_t:
                    any_c = any_c | self.sp.ev(c)
                M = anc.M & any_c
                added = [*anc.added, ("or", *conds_t) if len(conds_t) > 1 else conds_t[0]]
            else:
                M = self.sp.bconst(False)
                for c, o in zip(conds_t, [lv, *others], strict=True):
                    M = M | (self.sp.ev(c) & o.M)
                added = [("merged",)]
            self._push(merged, M, added)
            return
        if op == "split":
            st_, parts = self._call(i, step, s.split, allow_unsat=False)
            if st_ != "ok":
                return
            parts = list(parts)
            # (1) the constraint groups share no variables (recomputed from the constraints of each part: a part's
            #     .variables attribute may over-approximate after its constraints were simplified)
            seen = {}
            for k, p in enumerate(parts):
                vs = set()
                for c in p.constraints:
                    vs |= set(c.variables)
                for v in vs:
                    if v in seen and seen[v] != k:
                        self.fail("split-parts-share-variable", i, step, {"variable": v, "parts": [[repr(c)[:60] for c in q.constraints] for q in parts][:6]})
                        return
                    seen[v] = k
            # (2) "every conjunct exactly once" is checked through (3): children may hold the simplified form of what
            #     the parent lists, so a syntactic or per-conjunct comparison would alarm on meaning-preserving rewrites

            def conjuncts(cons):
                out = []
                for c in cons:
                    out.extend(c.args if c.op == "And" else [c])
                return out

            # (3) together equivalent to s
            Mall = self.sp.full()
            part_models = []
            try:
                for p in parts:
                    m = self.sp.full()
                    for c in p.constraints:
                        m = m & self.sp.ev_ast(c)
                    part_models.append(m)
                    Mall = Mall & m
            except (ValueError, KeyError):
                return
            if not np.array_equal(Mall, lv.M):
                k = int(np.flatnonzero(Mall != lv.M)[0])
                self.fail("split-not-equivalent", i, step, {"assignment": self.sp.assignment(k), "in_reference": bool(lv.M[k]), "in_parts": bool(Mall[k]), "parts": [[repr(c)[:60] for c in p.constraints] for p in parts][:6]})
                return
            for p, m in zip(parts[:2], part_models[:2], strict=False):
                self._push(p, m, [("split-part",)])
            return

    # ------------------------------------------------------------------ clause helpers
    def _check_values(self, i, step, r, V, n, nonempty, constq, cval, is_bool, width):
        try:
            got = [bool(x) if is_bool else int(x) & _mask(width) for x in r]
        except Exception:  # noqa: BLE001
            self.fail("eval-non-primitive", i, step, {"answer": repr(r)[:200]})
            return
        if any(not isinstance(x, (int, bool)) or (isinstance(x, bool) != is_bool) for x in r):
            self.fail("eval-wrong-type", i, step, {"answer": repr(r)[:200]})
            return
        if not nonempty:
            if got and not (constq and got == [bool(cval) if is_bool else int(cval)]):
                self.fail("values-on-unsat", i, step, {"answer": got[:8]})
            return
        Vs = {bool(v) if is_bool else int(v) for v in V}
        if len(set(got)) != len(got):
            self.fail("eval-duplicates", i, step, {"answer": got[:16]})
            return
        bad = [g for g in got if g not in Vs]
        if self.approx:
            if len(got) < n and not (Vs <= set(got)):
                self.fail("approx-eval-excludes-value", i, step, {"answer": got[:16], "missing": sorted(Vs - set(got))[:8]})
            return
        if bad:
            self.fail("eval-infeasible-value", i, step, {"infeasible": bad[:8], "answer": got[:16], "n_feasible": len(Vs)})
            return
        if len(got) != min(n, len(Vs)):
            self.fail("eval-wrong-count", i, step, {"got": len(got), "expected": min(n, len(Vs)), "answer": got[:16]})

    def _constraints_models(self, s):
        try:
            m = self.sp.full()
            for c in list(s.constraints):
                m = m & self.sp.ev_ast(c)
            return m
        except Exception:  # noqa: BLE001
            return None

    def _check_constraints_models(self, i, step, lv, before):
        """After simplify(): the stored constraint set must have exactly the models it had before (C09/C11)."""
        if self.frontend.startswith(("SolverReplacement", "SolverHybrid")):
            return  # their .constraints are rewritten through replacements by design; answers are checked instead
        after = self._constraints_models(lv.solver)
        if after is None:
            return
        if not np.array_equal(after, before):
            diff = int(np.flatnonzero(after != before)[0])
            self.fail("constraints-models-changed", i, step, {"assignment": self.sp.assignment(diff), "before_simplify": bool(before[diff]), "after_simplify": bool(after[diff]), "constraints": [repr(c)[:80] for c in lv.solver.constraints][:8]})

    def _unsat_core(self, i, step, lv, extras, extras_t):
        s = lv.solver
        if not hasattr(s, "unsat_core"):
            return
        M = lv.M & self._extra_mask(extras_t)
        st_, core = self._call(i, step, lambda: s.unsat_core(extra_constraints=extras) if extras else s.unsat_core(), allow_unsat=False)
        if st_ != "ok":
            return
        if not M.any() and lv.M.any():
            return  # unsatisfiable only because of the extra constraints, which are not tracked: no claim to check
        if not M.any():
            self.res.stats["core_on_unsat"] = self.res.stats.get("core_on_unsat", 0) + 1
        if M.any():
            if len(core) != 0:
                self.fail("core-nonempty-on-satisfiable", i, step, {"core": repr(core)[:200]})
            return
        try:
            items = list(core)
        except TypeError:
            self.fail("core-not-a-sequence", i, step, {"core": repr(core)[:200]})
            return
        if not all(isinstance(c, claripy.ast.Bool) for c in items):
            self.fail("core-element-not-a-constraint", i, step, {"core": repr(core)[:300]})
            return
        # membership: an element must be a constraint that was added (or an extra), or a top-level conjunct of one
        # (SolverComposite stores a conjunction as its conjuncts by design)
        added_hashes = set()
        for x in [*lv.added_objs, *extras]:
            added_hashes.add(x.hash())
            if x.op == "And":
                added_hashes.update(a.hash() for a in x.args)
        current = set()
        try:
            for c in s.constraints:
                current.add(c.hash())
                if c.op == "And":
                    current.update(a.hash() for a in c.args)
        except Exception:  # noqa: BLE001
            pass
        for c in items:
            if c.hash() not in added_hashes:
                clause = "core-element-is-rewritten-constraint" if c.hash() in current else "core-element-never-added"
                self.fail(clause, i, step, {"element": repr(c)[:200], "added": [repr(x)[:60] for x in lv.added_objs][:6]})
                return
        m = self._extra_mask(extras_t)  # extras are part of the contradiction but are not tracked
        try:
            for c in items:
                m = m & self.sp.ev_ast(c)
        except (ValueError, KeyError):
            return
        if m.any():
            k = int(np.flatnonzero(m)[0])
            self.fail("core-is-satisfiable", i, step, {"core": [repr(c)[:80] for c in items], "model": self.sp.assignment(k)})


def runner_canon(x):
    import json

    return json.dumps(x, sort_keys=True, default=str) if x is not None else None


# ------------------------------------------------------------------------------------------------
# generators (IR alphabet)


def _v(name):
    return ("var", name, W)


def _c(v):
    return ("const", v & _mask(W), W)


CONSTS = [0, 1, 2, 3, 5, 7, 8, 9, 14, 15]


@st.composite
def exprs(draw, names=BVVARS):
    """A 4-bit expression over the given variables."""
    x = _v(draw(st.sampled_from(names)))
    k = draw(st.integers(0, 11))
    if k <= 3:
        return x
    y = _v(draw(st.sampled_from(names)))
    c = _c(draw(st.sampled_from(CONSTS)))
    if k == 4:
        return ("bvadd", x, y)
    if k == 5:
        return ("bvand", x, _c(draw(st.sampled_from((3, 1, 12, 6)))))
    if k == 6:
        return ("bvlshr", x, _c(1))
    if k == 7:
        return ("bvmul", x, _c(3))
    if k == 8:
        return ("zext", 2, ("extract", draw(st.sampled_from((1, 2, 3))), draw(st.sampled_from((0, 1))), x)) if False else ("zext", 2, ("extract", 2, 1, x))
    if k == 9:
        return ("concat", ("extract", 1, 0, x), ("extract", 1, 0, y))
    if k == 10:
        return ("ite", ("bvar", "p"), x, y)
    return (draw(st.sampled_from(("bvsub", "bvadd", "bvxor"))), x, c)


@st.composite
def atoms(draw, names=BVVARS):
    k = draw(st.integers(0, 12))
    if k == 0:
        return ("bvar", "p")
    if k == 1:
        return ("not", ("bvar", "p"))
    lhs = draw(exprs(names))
    rhs = draw(st.one_of(st.sampled_from(CONSTS).map(_c), st.sampled_from(CONSTS).map(_c), exprs(names)))
    op = draw(st.sampled_from(ir.BV_CMP + ("eq", "ne", "ule", "uge")))
    return (op, lhs, rhs)


@st.composite
def constraints(draw, names=BVVARS):
    k = draw(st.integers(0, 14))
    if k == 0:
        return ("bconst", draw(st.sampled_from((True, True, False))))
    a = draw(atoms(names))
    if k <= 8:
        return a
    b = draw(atoms(names))
    if k <= 10:
        return ("or", a, b)
    if k <= 12:
        return ("and", a, b)
    return ("not", a)


def extras_strategy(names=BVVARS):
    return st.one_of(st.just([]), st.just([]), st.lists(constraints(names), min_size=1, max_size=2))


@st.composite
def steps(draw, groups=("core", "maint", "branch"), names=BVVARS, exact_kw=None):
    s = draw(st.integers(0, 5))
    kinds = []
    if "core" in groups:
        kinds += ["add"] * 5 + ["sat", "eval", "eval", "batch", "min", "max", "min", "max", "solution", "solution", "is_true", "is_false", "eval_to_ast"]
    if "truth" in groups:
        kinds += ["add"] * 3 + ["is_true"] * 4 + ["is_false"] * 4 + ["sat"]
    if "sat-heavy" in groups:
        kinds += ["sat"] * 6 + ["add"] * 2
    if "maint" in groups:
        kinds += ["simplify", "simplify", "downsize", "z3downsize", "finalize"]
    if "branch" in groups:
        kinds += ["branch"] * (4 if "branch-heavy" in groups else 1)
    if "pickle" in groups:
        kinds += ["pickle", "pickle", "pickle_all"]
    if "core-track" in groups:
        kinds += ["add"] * 2 + ["add_contra"] * 4 + ["unsat_core"] * 3
    if "algebra" in groups:
        kinds += ["split", "combine", "merge", "merge", "blank_copy", "branch"]
    if "algebra-heavy" in groups:
        kinds += ["split", "combine", "combine", "merge", "merge", "merge", "branch", "branch"]
    k = draw(st.sampled_from(kinds))
    step = {"op": k, "s": s}
    if exact_kw is not None and k not in ("add", "simplify", "downsize", "z3downsize", "finalize", "branch", "pickle", "pickle_all", "unsat_core", "split", "combine", "merge", "blank_copy"):
        step["exact"] = draw(st.sampled_from(exact_kw))
    if k == "add":
        step["cs"] = draw(st.lists(constraints(names), min_size=1, max_size=2))
        step["as_list"] = draw(st.booleans())
        if draw(st.integers(0, 24)) == 0:
            # a constant among the constraints of one add, possibly carrying an annotation (then it is not the object false() / true())
            step["cs"] = [*step["cs"], ("bconst", draw(st.sampled_from((False, False, True))))]
            step["as_list"] = True
            if draw(st.booleans()):
                step["tag"] = draw(st.integers(0, 3))
        return step
    if k == "add_contra":
        # members of small contradictory families, so that histories reach unsatisfiability through 2-3 constraints
        x = _v(draw(st.sampled_from(names[:2])))
        y = _v(draw(st.sampled_from(names)))
        fam = [("eq", x, _c(1)), ("eq", x, _c(2)), ("ult", x, _c(3)), ("ugt", x, _c(5)), ("eq", ("bvadd", x, y), _c(3)), ("ugt", y, _c(9)), ("ule", x, _c(6)),
               ("bconst", False), ("ne", x, _c(1)), ("uge", x, y), ("ult", x, y), ("and", ("ugt", x, _c(5)), ("ult", y, _c(2)))]
        step["op"] = "add"
        step["cs"] = draw(st.lists(st.sampled_from(fam), min_size=1, max_size=2))
        step["as_list"] = draw(st.booleans())
        if draw(st.booleans()):
            step["tag"] = draw(st.integers(0, 3))
        return step
    if k in ("simplify", "downsize", "z3downsize", "finalize", "branch", "split", "blank_copy", "pickle_all"):
        return step
    if k == "combine":
        step["others"] = draw(st.lists(st.integers(0, 7), min_size=1, max_size=2))
        return step
    if k == "merge":
        step["others"] = draw(st.lists(st.integers(0, 7), min_size=1, max_size=2))
        step["conds"] = draw(st.lists(st.one_of(constraints(names), atoms(names)), min_size=3, max_size=3))
        step["ancestor"] = draw(st.one_of(st.none(), st.none(), st.integers(0, 7)))
        return step
    if k == "pickle":
        step["keep_original"] = draw(st.booleans())
        if draw(st.integers(0, 2)) == 0:
            step["twin"] = True
        return step
    step["extra"] = draw(extras_strategy(names))
    if k == "sat" or k == "unsat_core":
        return step
    if k in ("is_true", "is_false"):
        step["e"] = draw(constraints(names))
        return step
    if k in ("eval", "eval_to_ast"):
        step["e"] = draw(st.one_of(exprs(names), exprs(names), atoms(names))) if k == "eval" else draw(exprs(names))
        step["n"] = draw(st.sampled_from((1, 2, 3, 17, 300)))
        return step
    if k == "batch":
        step["es"] = draw(st.lists(exprs(names), min_size=1, max_size=2))
        step["n"] = draw(st.sampled_from((1, 2, 3, 17, 300)))
        return step
    if k in ("min", "max"):
        step["e"] = draw(exprs(names))
        step["signed"] = draw(st.booleans())
        return step
    if k == "solution":
        step["e"] = draw(exprs(names))
        if draw(st.integers(0, 3)) == 0:
            step["v"] = draw(exprs(names))
        else:
            step["v"] = draw(st.sampled_from(CONSTS))
            step["v_as_bvv"] = draw(st.booleans())
        return step
    raise AssertionError(k)


@st.composite
def histories(draw, groups=("core", "maint", "branch"), max_steps=40, names=BVVARS, exact_kw=None):
    """A history.  Cache defects need the *same* expression queried again after something changed, so each history
    first draws a focus (a subset of the variables) and a small pool of query expressions that later steps reuse."""
    k = draw(st.integers(0, 9))
    if k < 5 and len(names) > 2:
        i = draw(st.integers(0, len(names) - 2))
        focus = tuple(names[i : i + 2])
    elif k < 7:
        focus = (draw(st.sampled_from(names)),)
    else:
        focus = tuple(names)
    pool = [_v(focus[0])] + [draw(exprs(focus)) for _ in range(2)]
    if "core" in groups and draw(st.integers(0, 9)) < 5:
        # scenario mode: rounds of (adds over the focus variables) followed by the SAME few queries again
        qtemplates = []
        for _ in range(draw(st.integers(2, 4))):
            q = draw(steps(("core",), focus, exact_kw).filter(lambda s_: s_["op"] not in ("add",)))
            if "e" in q and q["op"] not in ("is_true", "is_false") and not ir.is_bool(ir.T(q["e"])):
                q = {**q, "e": draw(st.sampled_from(pool))}
            if q["op"] in ("eval", "batch") and draw(st.booleans()):
                q = {**q, "n": draw(st.sampled_from((17, 300)))}
            if draw(st.integers(0, 2)):
                q = {**q, "extra": []}
            qtemplates.append(q)
        out = []
        for _round in range(draw(st.integers(2, 4))):
            for _ in range(draw(st.integers(1, 2))):
                x, y = _v(draw(st.sampled_from(focus))), _v(draw(st.sampled_from(focus)))
                c = draw(st.one_of(constraints(focus), st.tuples(st.sampled_from(ir.BV_CMP), st.just(x), st.just(y)),
                                   st.tuples(st.sampled_from(("ugt", "ult", "ne", "sle")), st.just(y), st.sampled_from(CONSTS).map(_c))))
                out.append({"op": "add", "s": draw(st.integers(0, 5)), "cs": [c], "as_list": draw(st.booleans())})
            if "branch" in groups and draw(st.integers(0, 9)) < 4:
                # branch right after adds (pending, not yet solved constraints) and use the child (index -1 = newest)
                # before anything is added to it; sometimes echo the parent's next constraint in the child
                parent = 0  # (indices are taken modulo the number of live solvers, which the branch changes: 0 stays the root)
                out.append({"op": "branch", "s": parent})
                if draw(st.booleans()):
                    c2 = draw(constraints(focus))
                    out.append({"op": "add", "s": parent, "cs": [c2], "as_list": False})
                    if draw(st.booleans()):
                        out.append({"op": "add", "s": -1, "cs": [c2], "as_list": False})
                for q in qtemplates:
                    if draw(st.integers(0, 2)):
                        out.append({**q, "s": -1})
            for q in qtemplates:
                if draw(st.integers(0, 4)):
                    out.append({**q, "s": draw(st.integers(0, 5))})
            if draw(st.integers(0, 3)) == 0:
                extra_groups = [g for g in groups if g != "core"]
                if extra_groups:
                    out.append(draw(steps(tuple(extra_groups), focus, exact_kw)))
        return out[:max_steps]
    hist = draw(st.lists(steps(groups, focus, exact_kw), min_size=3, max_size=max_steps))
    cpool = [draw(constraints(focus)) for _ in range(3)]
    out = []
    for stp in hist:
        if stp["op"] == "add" and draw(st.integers(0, 9)) < 5:
            stp = {**stp, "cs": [draw(st.sampled_from(cpool))]}
        if stp["op"] in ("is_true", "is_false") and draw(st.integers(0, 9)) < 5:
            stp = {**stp, "e": draw(st.sampled_from(cpool))}  # ask about something that was (or will be) added somewhere
        if "e" in stp and stp["op"] not in ("is_true", "is_false") and not ir.is_bool(ir.T(stp["e"])) and draw(st.integers(0, 9)) < 6:
            stp = {**stp, "e": draw(st.sampled_from(pool))}
        out.append(stp)
    return out


@st.composite
def scenario_exhaust_then_bridge(draw, exact_kw=None):
    """Two variables are constrained separately and each is enumerated completely (eval with a large n, or min/max), so that
    caches hold "all values" of each; then a constraint over BOTH arrives (a composite has to combine its children; a plain
    solver has to drop what it cached) and the same queries are asked again -- on the solver, after simplify / split, and on a
    branch taken before the bridging constraint."""
    x, y = [_v(n) for n in draw(st.permutations(BVVARS))[:2]]
    out = []

    def narrow(v):
        k = draw(st.integers(0, 3))
        c = _c(draw(st.sampled_from(CONSTS)))
        if k == 0:
            return ("ule", v, c)
        if k == 1:
            return ("or", ("eq", v, c), ("eq", v, _c(draw(st.sampled_from(CONSTS)))))
        if k == 2:
            return ("eq", ("bvand", v, _c(draw(st.sampled_from((3, 6, 12, 9))))), _c(draw(st.sampled_from((0, 1, 2, 4, 8)))))
        return (draw(st.sampled_from(("ugt", "slt", "ne", "sge"))), v, c)

    for v in (x, y):
        for _ in range(draw(st.integers(0, 2))):
            out.append({"op": "add", "s": 0, "cs": [narrow(v)], "as_list": draw(st.booleans())})

    def exhaust(v, s_):
        k = draw(st.integers(0, 4))
        if k <= 1:
            return {"op": "eval", "s": s_, "e": v, "n": draw(st.sampled_from((17, 300))), "extra": []}
        if k == 2:
            return {"op": "batch", "s": s_, "es": [v], "n": 300, "extra": []}
        return {"op": draw(st.sampled_from(("min", "max"))), "s": s_, "e": v, "signed": draw(st.booleans()), "extra": []}

    probes = [exhaust(x, 0), exhaust(y, 0)] + ([exhaust(draw(st.sampled_from((x, y))), 0)] if draw(st.booleans()) else [])
    out += probes
    if draw(st.booleans()):
        # a query spanning both groups that leaves no helper constraint behind: a composite answers it from a combination of the
        # two children, which it may keep -- and must not keep sharing with a branch once either side changes
        out.append(draw(st.sampled_from(({"op": "batch", "s": 0, "es": [x, y], "n": draw(st.sampled_from((1, 3))), "extra": []},
                                         {"op": "eval", "s": 0, "e": ("bvadd", x, y), "n": 1, "extra": []},
                                         {"op": "solution", "s": 0, "e": ("bvxor", x, y), "v": draw(st.sampled_from(CONSTS)), "v_as_bvv": False, "extra": []},
                                         {"op": "sat", "s": 0, "extra": [("ule", x, y)]}))))
    branched = draw(st.integers(0, 2)) == 0
    if branched:
        out.append({"op": "branch", "s": 0})
    k = draw(st.integers(0, 4))
    if k == 0:
        bridge = (draw(st.sampled_from(ir.BV_CMP)), x, y)
    elif k == 1:
        bridge = (draw(st.sampled_from(("ule", "eq", "ugt", "slt"))), ("bvadd", x, y), _c(draw(st.sampled_from(CONSTS))))
    elif k == 2:
        bridge = ("or", ("ult", x, y), ("eq", x, _c(draw(st.sampled_from(CONSTS)))))
    elif k == 3:
        bridge = ("ne", ("bvxor", x, y), _c(draw(st.sampled_from(CONSTS))))
    else:
        bridge = draw(constraints((x[1], y[1])))
    side = draw(st.sampled_from((0, 0, -1))) if branched else 0
    out.append({"op": "add", "s": side, "cs": [bridge], "as_list": draw(st.booleans())})
    if draw(st.integers(0, 3)) == 0:
        out.append({"op": draw(st.sampled_from(("simplify", "split", "downsize"))), "s": side})
    for t in (draw(st.permutations([0, -1])) if branched else [0]):
        # in a generated order: a single-variable query can repair (or purge) what a spanning query would have shown
        final = [{**q, "s": t} for q in probes] + [{"op": "sat", "s": t, "extra": []}, {"op": "batch", "s": t, "es": [x, y], "n": 300, "extra": []}]
        out += list(draw(st.permutations(final)))
    if exact_kw is not None:
        out = [({**s_, "exact": draw(st.sampled_from(exact_kw))} if s_["op"] not in ("add", "branch", "simplify", "split", "downsize") else s_) for s_ in out]
    return out


@st.composite
def scenario_extras_do_not_stick(draw, exact_kw=None):
    """Queries with extra constraints (refutable ones included) followed by the same queries without them, on the solver and on a
    branch: nothing of an extra constraint may outlive its query."""
    names = tuple(draw(st.permutations(BVVARS))[: draw(st.integers(1, 2))])
    x = _v(names[0])
    out = []
    for _ in range(draw(st.integers(1, 3))):
        out.append({"op": "add", "s": 0, "cs": [draw(st.one_of(constraints(names), st.tuples(st.sampled_from(("ule", "ult", "uge")), st.just(x), st.sampled_from(CONSTS).map(_c))))], "as_list": False})
    for _round in range(draw(st.integers(1, 3))):
        k = draw(st.integers(0, 3))
        if k == 0:
            extra = [("eq", x, _c(draw(st.sampled_from(CONSTS))))]
        elif k == 1:
            extra = [("ugt", x, _c(14)), ("ult", x, _c(2))]  # refutable on its own
        elif k == 2:
            extra = [draw(constraints(names))]
        else:
            extra = [("bconst", False)]
        q = draw(st.sampled_from(("sat", "sat", "eval", "min", "max", "solution")))
        if q == "sat":
            step = {"op": "sat", "s": 0, "extra": extra}
        elif q == "eval":
            step = {"op": "eval", "s": 0, "e": x, "n": draw(st.sampled_from((1, 3, 17))), "extra": extra}
        elif q == "solution":
            step = {"op": "solution", "s": 0, "e": x, "v": draw(st.sampled_from(CONSTS)), "v_as_bvv": False, "extra": extra}
        else:
            step = {"op": q, "s": 0, "e": x, "signed": draw(st.booleans()), "extra": extra}
        out.append(step)
        if draw(st.integers(0, 2)) == 0:
            out.append({"op": "branch", "s": 0})
        for t in (0, -1):
            out.append({**step, "extra": [], "s": t})
            out.append({"op": "sat", "s": t, "extra": []})
    if exact_kw is not None:
        out = [({**s_, "exact": draw(st.sampled_from(exact_kw))} if s_["op"] not in ("add", "branch") else s_) for s_ in out]
    return out


@st.composite
def scenario_pickle(draw, exact_kw=None):
    """Pickling at the moments where a frontend holds state that is not in its constraint list: constraints added but not yet
    checked (possibly already contradictory), a family of branches sharing children copy-on-write pickled together, caches
    filled by exhaustive queries.  After the unpickle every copy is queried, one of them gets another constraint, and all
    are queried again."""
    names = tuple(draw(st.permutations(BVVARS))[:2])
    x, y = _v(names[0]), _v(names[1])
    out = []
    cmpc = lambda v: (draw(st.sampled_from(("ule", "ult", "uge", "ugt", "eq", "ne", "sgt", "slt"))), v, _c(draw(st.sampled_from(CONSTS))))  # noqa: E731
    for _ in range(draw(st.integers(0, 2))):
        out.append({"op": "add", "s": 0, "cs": [cmpc(draw(st.sampled_from((x, y))))], "as_list": draw(st.booleans())})
    if draw(st.booleans()):
        out.append(draw(st.sampled_from(({"op": "sat", "s": 0, "extra": []}, {"op": "eval", "s": 0, "e": x, "n": 300, "extra": []},
                                         {"op": "min", "s": 0, "e": y, "signed": False, "extra": []}))))
    n_br = draw(st.integers(0, 2))
    for _ in range(n_br):
        out.append({"op": "branch", "s": draw(st.integers(0, 3))})
    # adds that nobody has checked when the pickle is taken; often a contradiction within one variable
    for _ in range(draw(st.integers(0, 2))):
        v = draw(st.sampled_from((x, y)))
        k = draw(st.integers(0, 3))
        if k == 0:
            cs = [("ugt", v, _c(9)), ("ult", v, _c(3))]
        elif k == 1:
            cs = [cmpc(v)]
        elif k == 2:
            cs = [(draw(st.sampled_from(ir.BV_CMP)), x, y)]
        else:
            cs = [("eq", v, _c(draw(st.sampled_from(CONSTS))))]
        for c in cs:
            out.append({"op": "add", "s": draw(st.integers(0, 3)) if n_br else 0, "cs": [c], "as_list": False})
    out.append(draw(st.sampled_from(({"op": "pickle_all", "s": 0}, {"op": "pickle_all", "s": 0}, {"op": "pickle", "s": draw(st.integers(0, 3)), "keep_original": draw(st.booleans())},
                                     {"op": "pickle", "s": draw(st.integers(0, 3)), "twin": True}))))

    # compound terms over the constrained variables: what a replacement-based frontend caches derived entries for
    comp = [draw(st.sampled_from((("bvadd", x, _c(1)), ("bvadd", x, y), ("bvand", x, _c(12)), ("bvsub", y, x), ("bvmul", x, _c(3)), ("zext", 2, x), ("bvor", x, y)))) for _ in range(2)]

    def probes(t):
        return [{"op": "sat", "s": t, "extra": []}, {"op": "eval", "s": t, "e": x, "n": 300, "extra": []}, {"op": "batch", "s": t, "es": [x, y], "n": 300, "extra": []},
                {"op": "max", "s": t, "e": comp[0], "signed": False, "extra": []}, {"op": "eval", "s": t, "e": comp[1], "n": 300, "extra": []},
                {"op": "min", "s": t, "e": comp[1], "signed": False, "extra": []}]

    order = list(range(n_br + 2))
    if draw(st.integers(0, 3)):
        for t in order:
            ps = probes(t)
            out += [ps[j] for j in sorted(draw(st.sets(st.integers(0, len(ps) - 1), min_size=1, max_size=4)))]
    t_add = draw(st.sampled_from(order))
    out.append({"op": "add", "s": t_add, "cs": [draw(st.one_of(st.just(cmpc(x)), st.just(("ule", ("bvadd", x, y), _c(draw(st.sampled_from(CONSTS))))), constraints(names)))], "as_list": False})
    for t in order:
        out += probes(t)
    if exact_kw is not None:
        out = [({**s_, "exact": draw(st.sampled_from(exact_kw))} if s_["op"] in ("sat", "eval", "batch", "min", "max") else s_) for s_ in out]
    return out


@st.composite
def scenario_helper_children(draw, exact_kw=None):
    """A composite gets children the caller never asked for: min / max / exhaustive eval of a term over two otherwise
    unconstrained variables leaves a helper constraint about that term behind (constraint expansion), in a child of its own, and
    a query whose extra constraints mention only one of the two variables caches a solver for that variable alone.  Then a
    constraint joins the group of a third variable with ONE of the two, later constraints narrow the third variable (possibly to
    nothing) and finally mention only the OTHER of the two -- every lookup by a single variable has to find the merged child."""
    names = tuple(draw(st.permutations(BVVARS)))
    x, y, z = _v(names[0]), _v(names[1]), _v(names[2])
    p = ("bvar", "p")
    out = []
    kc = lambda: _c(draw(st.sampled_from(CONSTS)))  # noqa: E731
    g1 = [("or", ("eq", z, kc()), ("eq", z, kc())), ("or", p, ("ne", z, kc())), ("ule", z, kc()), ("ugt", z, _c(draw(st.sampled_from((0, 1, 2, 3)))))]
    for c in draw(st.lists(st.sampled_from(g1), min_size=1, max_size=2, unique=True)):
        out.append({"op": "add", "s": 0, "cs": [c], "as_list": False})
    term = draw(st.sampled_from((("bvadd", x, y), ("bvxor", x, y), ("bvsub", x, y), ("bvor", x, y), ("concat", ("extract", 1, 0, x), ("extract", 1, 0, y)))))
    out.append(draw(st.sampled_from(({"op": "min", "s": 0, "e": term, "signed": False, "extra": []}, {"op": "max", "s": 0, "e": term, "signed": draw(st.booleans()), "extra": []},
                                     {"op": "eval", "s": 0, "e": term, "n": 300, "extra": []}, {"op": "eval", "s": 0, "e": term, "n": 2, "extra": []}))))
    one = draw(st.sampled_from((x, y)))
    other = y if one is x else x
    only_one = draw(st.sampled_from((("eq", ("bvand", one, _c(1)), _c(1)), ("ult", one, kc()), ("ne", one, kc()))))
    out.append(draw(st.sampled_from(({"op": "eval", "s": 0, "e": z, "n": 300, "extra": [only_one]}, {"op": "sat", "s": 0, "extra": [only_one]},
                                     {"op": "eval", "s": 0, "e": one, "n": 2, "extra": []}, {"op": "max", "s": 0, "e": one, "signed": False, "extra": [only_one]}))))
    if draw(st.integers(0, 3)) == 0:
        out.append({"op": "branch", "s": 0})
    t = draw(st.sampled_from((0, -1)))
    bridge = draw(st.sampled_from((("or", p, ("eq", other, kc()), ("eq", other, kc())), ("ult", other, z), ("eq", ("bvand", other, z), _c(0)), ("or", ("eq", z, kc()), ("ugt", other, kc())))))
    out.append({"op": "add", "s": t, "cs": [bridge], "as_list": False})
    if draw(st.booleans()):
        out.append({"op": "add", "s": t, "cs": [draw(st.sampled_from((("ult", z, _c(2)), ("ult", z, _c(1)), ("ugt", z, _c(14)), ("eq", z, kc()))))], "as_list": False})
    out.append({"op": "add", "s": t, "cs": [only_one], "as_list": draw(st.booleans())})
    for u in (0, -1):
        out.append({"op": "sat", "s": u, "extra": []})
        out.append({"op": "eval", "s": u, "e": z, "n": 300, "extra": []})
        out.append({"op": "min", "s": u, "e": z, "signed": True, "extra": []})
        out.append({"op": "batch", "s": u, "es": [x, y], "n": 300, "extra": []})
        out.append({"op": "eval", "s": u, "e": one, "n": 300, "extra": []})
    if exact_kw is not None:
        out = [({**s_, "exact": draw(st.sampled_from(exact_kw))} if s_["op"] in ("sat", "eval", "batch", "min", "max") else s_) for s_ in out]
    return out


@st.composite
def scenario_branch_isolation(draw, exact_kw=None):
    """What branches share until one side changes: the backend solver object (created by the first query), cached models and
    exhaustion marks, a composite's children and its cached combinations of children (created by a query spanning two groups).
    Parent: constraints on two groups, single-group and spanning queries; branch (and branch again, before or after an add that
    nobody has queried yet); one side gets narrowing / bridging / contradicting constraints; then every side is asked the same
    queries in a generated order."""
    names = tuple(draw(st.permutations(BVVARS))[:2])
    x, y = _v(names[0]), _v(names[1])
    kc = lambda: _c(draw(st.sampled_from(CONSTS)))  # noqa: E731
    cmpc = lambda v: (draw(st.sampled_from(("ule", "ult", "uge", "ugt", "ne", "sgt", "slt"))), v, kc())  # noqa: E731
    out = []
    for v in (x, y):
        for _ in range(draw(st.integers(0, 1))):
            out.append({"op": "add", "s": 0, "cs": [cmpc(v)], "as_list": False})
    queries = [{"op": "eval", "e": x, "n": draw(st.sampled_from((1, 2, 300))), "extra": []}, {"op": "batch", "es": [x, y], "n": draw(st.sampled_from((1, 3, 300))), "extra": []},
               {"op": "solution", "e": draw(st.sampled_from((x, ("bvadd", x, y)))), "v": draw(st.sampled_from(CONSTS)), "v_as_bvv": False, "extra": []},
               {"op": "sat", "extra": []}, {"op": "sat", "extra": [draw(st.sampled_from((("ule", x, y), ("eq", x, kc()), ("ugt", y, kc()))))]},
               {"op": draw(st.sampled_from(("min", "max"))), "e": draw(st.sampled_from((x, y, ("bvadd", x, y)))), "signed": draw(st.booleans()), "extra": []},
               {"op": "eval", "e": ("bvadd", x, y), "n": draw(st.sampled_from((1, 300))), "extra": []}]
    for q in draw(st.lists(st.sampled_from(queries), min_size=0, max_size=3)):
        out.append({**q, "s": 0})
    out.append({"op": "branch", "s": 0})
    n_live = 2
    changed = draw(st.sampled_from((0, 1)))
    change = [draw(st.sampled_from((cmpc(x), cmpc(y), (draw(st.sampled_from(ir.BV_CMP)), x, y), ("eq", x, y), ("ule", ("bvadd", x, y), kc()), ("eq", x, kc()),
                                    ("and", ("ugt", x, _c(9)), ("ult", x, _c(3))))))
              for _ in range(draw(st.integers(1, 2)))]
    for i, c in enumerate(change):
        out.append({"op": "add", "s": changed, "cs": [c], "as_list": draw(st.booleans())})
        if i == 0 and draw(st.integers(0, 2)) == 0:
            # branch the changed side again while its last add is still pending, or the other side
            out.append({"op": "branch", "s": draw(st.sampled_from((changed, 1 - changed)))})
            n_live += 1
        elif draw(st.integers(0, 3)) == 0:
            out.append({**draw(st.sampled_from(queries)), "s": changed})
    if draw(st.integers(0, 4)) == 0:
        out.append({"op": draw(st.sampled_from(("simplify", "downsize"))), "s": draw(st.integers(0, n_live - 1))})
    for t in draw(st.permutations(list(range(n_live)))):
        for q in draw(st.permutations(queries))[: draw(st.integers(2, 5))]:
            out.append({**q, "s": t})
    if exact_kw is not None:
        out = [({**s_, "exact": draw(st.sampled_from(exact_kw))} if s_["op"] in ("sat", "eval", "batch", "min", "max", "solution") else s_) for s_ in out]
    return out


@st.composite
def scenario_constant_in_list(draw, exact_kw=None):
    """A Boolean constant among the constraints of one add([...]) -- plain or carrying an annotation, i.e. not the object false() /
    true() that the caching layers compare against --, after a pin or an exhaustive query has filled the caches, followed by the
    queries again."""
    names = tuple(draw(st.permutations(BVVARS))[:2])
    x, y = _v(names[0]), _v(names[1])
    out = [{"op": "add", "s": 0, "cs": [draw(st.sampled_from((("eq", x, _c(draw(st.sampled_from(CONSTS)))), ("ule", x, _c(draw(st.sampled_from(CONSTS)))), ("ult", x, y))))], "as_list": False}]
    if draw(st.booleans()):
        out.append({"op": "eval", "s": 0, "e": x, "n": draw(st.sampled_from((1, 300))), "extra": []})
    if draw(st.integers(0, 2)) == 0:
        out.append({"op": "branch", "s": 0})
    cs = [("ult", x, y), ("bconst", draw(st.sampled_from((False, False, False, True))))]
    step = {"op": "add", "s": draw(st.sampled_from((0, -1))), "cs": list(draw(st.permutations(cs))), "as_list": True}
    if draw(st.integers(0, 3)):
        step["tag"] = draw(st.integers(0, 3))
    out.append(step)
    for t in (0, -1):
        out += [{"op": "eval", "s": t, "e": x, "n": draw(st.sampled_from((1, 2, 300))), "extra": []}, {"op": "sat", "s": t, "extra": []},
                {"op": "min", "s": t, "e": y, "signed": False, "extra": []}, {"op": "solution", "s": t, "e": x, "v": draw(st.sampled_from(CONSTS)), "v_as_bvv": False, "extra": []}]
    if exact_kw is not None:
        out = [({**s_, "exact": draw(st.sampled_from(exact_kw))} if s_["op"] in ("sat", "eval", "min", "solution") else s_) for s_ in out]
    return out


@st.composite
def scenario_core(draw):
    """Unsatisfiability reached in the ways that take different routes to a core: a pairwise contradiction the cheap syntactic
    check recognises, one that only the solver finds (two or three constraints over two variables), False itself; the members
    arrive one per add or batched, with satisfiable bystanders, with a query (which creates the backend solver) and / or a branch
    (which finalizes and later clones it) before the last member arrives; unsat_core() is then asked on every live solver,
    twice, and after a further add."""
    names = tuple(draw(st.permutations(BVVARS)))
    x, y, z = _v(names[0]), _v(names[1]), _v(names[2])
    fams = [
        [("ult", x, _c(3)), ("ugt", x, _c(5))],
        [("eq", x, _c(1)), ("eq", x, _c(2))],
        [("eq", x, _c(1)), ("ne", x, _c(1))],
        [("ult", x, y), ("ult", y, _c(4)), ("ugt", x, _c(5))],
        [("ugt", x, _c(9)), ("ult", y, _c(5)), ("eq", ("bvadd", x, y), _c(9))],
        [("ule", x, _c(6)), ("uge", x, y), ("ugt", y, _c(9))],
        [("bconst", False)],
        [("eq", ("bvand", x, _c(1)), _c(1)), ("eq", ("bvand", x, _c(3)), _c(2))],
        [("slt", x, _c(0)), ("ult", x, _c(8))],
    ]
    fam = list(draw(st.permutations(draw(st.sampled_from(fams)))))
    noise = [draw(st.sampled_from((("ule", z, _c(12)), ("ne", z, _c(0)), ("ugt", ("bvadd", z, _c(1)), _c(2)), ("ule", y, _c(14)), ("ne", x, _c(7)), ("eq", z, _c(3)))))
             for _ in range(draw(st.integers(0, 3)))]
    early, last = fam[:-1], fam[-1]
    pre = list(draw(st.permutations(early + noise)))
    out = []
    tag = lambda: ({"tag": draw(st.integers(0, 3))} if draw(st.integers(0, 3)) == 0 else {})  # noqa: E731
    i = 0
    while i < len(pre):
        k = draw(st.integers(1, 2))
        out.append({"op": "add", "s": 0, "cs": pre[i : i + k], "as_list": draw(st.booleans()), **tag()})
        i += k
        if draw(st.integers(0, 2)) == 0:
            out.append(draw(st.sampled_from(({"op": "sat", "s": 0, "extra": []}, {"op": "unsat_core", "s": 0, "extra": []},
                                             {"op": "eval", "s": 0, "e": x, "n": 1, "extra": []},
                                             # a refuted candidate value: what the solver learns from it is not a constraint the caller added
                                             {"op": "solution", "s": 0, "e": x, "v": draw(st.sampled_from((1, 2, 5, 9, 15))), "v_as_bvv": False, "extra": []}))))
    if draw(st.booleans()):
        out.append(draw(st.sampled_from(({"op": "sat", "s": 0, "extra": []}, {"op": "unsat_core", "s": 0, "extra": []}))))
    n_br = draw(st.integers(0, 2))
    for _ in range(n_br):
        out.append({"op": "branch", "s": draw(st.integers(0, 2))})
        if draw(st.integers(0, 2)) == 0:
            out.append({"op": "sat", "s": draw(st.integers(0, 2)), "extra": []})
    t = draw(st.integers(0, n_br))
    tail_noise = [draw(st.sampled_from((("ule", z, _c(13)), ("ne", y, _c(15)))))] if draw(st.integers(0, 2)) == 0 else []
    out.append({"op": "add", "s": t, "cs": list(draw(st.permutations([last, *tail_noise]))), "as_list": draw(st.booleans()), **tag()})
    for u in range(n_br + 1):
        out.append({"op": "unsat_core", "s": u, "extra": []})
        out.append({"op": "sat", "s": u, "extra": []})
        out.append({"op": "unsat_core", "s": u, "extra": []})
    if draw(st.booleans()):
        out.append({"op": "add", "s": t, "cs": [("ule", z, _c(11))], "as_list": False})
        out.append({"op": "unsat_core", "s": t, "extra": []})
    if draw(st.integers(0, 3)) == 0:
        # a satisfiable solver asked with refutable extras
        out.append({"op": "unsat_core", "s": (t + 1) % (n_br + 1), "extra": [("ugt", z, _c(14)), ("ult", z, _c(2))]})
    return out


def shrink_history(frontend, history, fp, deadline, reuse=False, approx=False, run=None, is_known=None):
    """ddmin over the steps; a candidate is kept only if it still fails with the same fingerprint *and* that failure is
    not an instance of an open known finding (otherwise the shrinker would slide from a new defect into a listed one)."""
    from . import shrink as shrinker

    def still(h):
        r = (run or (lambda hh: Machine(frontend, reuse=reuse, approx=approx).run(hh)))(h)
        for f, o in r.fails:
            if f == fp and not (is_known is not None and is_known(h, f, o)):
                return o
        return None

    return shrinker.ddmin_list(list(history), still, deadline)
