"""Hypothesis strategies for IR trees: constructive (no filter/assume), widths threaded top-down,
boundary-biased constants, plus shape templates of the idioms rewriters key on."""

from __future__ import annotations

from hypothesis import strategies as st

from . import ir

WIDTHS_QUICK = (1, 2, 3, 4, 7, 8, 9, 15, 16, 17, 24, 31, 32, 33, 63, 64, 128)
WIDTHS_THOROUGH = WIDTHS_QUICK + (5, 6, 12, 40, 48, 65, 72, 256)
SMALL_WIDTHS = (1, 2, 3, 4)


def const_values(n):
    m = (1 << n) - 1
    pool = set(ir.boundary_values(n))
    for k in range(0, n + 1):
        pool.add((1 << k) & m)  # single bits
        pool.add(((1 << k) - 1) & m)  # low-ones masks
        pool.add((m << k) & m)  # high-ones masks
    for k in (n - 2, n - 1, n, n + 1, n + 2, 2 * n - 1, 2 * n, 7, 8, 9, 0xFFFF, 0xFF00, 0xFFFFFFFF, 0x80000000):
        pool.add(k & m)
    return sorted(pool)


def consts(n):
    pool = const_values(n)
    return st.one_of(st.sampled_from(pool), st.sampled_from(pool), st.integers(0, (1 << n) - 1)).map(lambda v: ("const", v, n))


def bv_vars(n, nvars=3):
    return st.integers(0, nvars - 1).map(lambda i: ("var", f"v{i}_{n}", n))


def bool_vars(nvars=2):
    return st.integers(0, nvars - 1).map(lambda i: ("bvar", f"p{i}"))


def _split_widths(draw, n, parts):
    """n = w1+...+wk with all wi >= 1."""
    cuts = sorted(draw(st.lists(st.integers(1, n - 1), min_size=parts - 1, max_size=parts - 1, unique=True)))
    ws = []
    prev = 0
    for c in cuts:
        ws.append(c - prev)
        prev = c
    ws.append(n - prev)
    return ws


@st.composite
def bv_tree(draw, n, depth, cfg):
    """A BV tree of width n, depth <= depth.  cfg: dict(nvars, concrete, widths, ops)"""
    if depth <= 0 or draw(st.integers(0, 9)) < 2:
        if cfg.get("concrete") or draw(st.integers(0, 9)) < 4:
            return draw(consts(n))
        return draw(bv_vars(n, cfg.get("nvars", 3)))
    kinds = ["bin", "bin", "bin", "un", "ite", "extract", "shiftc"]
    if n >= 2:
        kinds += ["concat", "zext", "sext"]
    if n % 8 == 0:
        kinds.append("bswap")
    kind = draw(st.sampled_from(kinds))
    d = depth - 1
    if kind == "bin":
        op = draw(st.sampled_from(cfg.get("bin_ops", ir.BV_BIN)))
        return (op, draw(bv_tree(n, d, cfg)), draw(bv_tree(n, d, cfg)))
    if kind == "shiftc":
        op = draw(st.sampled_from(("bvshl", "bvlshr", "bvashr", "rotl", "rotr")))
        amt = draw(st.sampled_from(sorted(v for v in {0, 1, n - 1, n, n + 1, n // 2, (1 << n) - 1, (1 << n) - 2, (1 << (n - 1))} if 0 <= v < (1 << n))))
        return (op, draw(bv_tree(n, d, cfg)), ("const", amt, n))
    if kind == "un":
        op = draw(st.sampled_from(("bvneg", "bvnot")))
        return (op, draw(bv_tree(n, d, cfg)))
    if kind == "bswap":
        return ("bswap", draw(bv_tree(n, d, cfg)))
    if kind == "ite":
        return ("ite", draw(bool_tree(d, cfg)), draw(bv_tree(n, d, cfg)), draw(bv_tree(n, d, cfg)))
    if kind == "extract":
        extra = draw(st.sampled_from((0, 0, 1, 2, 8, n, 7, 24)))
        src = n + extra
        if src > cfg.get("max_width", 256):
            src, extra = n, 0
        lo = draw(st.integers(0, extra))
        return ("extract", lo + n - 1, lo, draw(bv_tree(src, d, cfg)))
    if kind == "concat":
        parts = draw(st.integers(2, min(3, n)))
        ws = _split_widths(draw, n, parts)
        return ("concat", *[draw(bv_tree(w, d, cfg)) for w in ws])
    if kind in ("zext", "sext"):
        k = draw(st.integers(0, n - 1))
        return (kind, k, draw(bv_tree(n - k, d, cfg)))
    raise AssertionError(kind)


@st.composite
def bool_tree(draw, depth, cfg):
    if depth <= 0 or draw(st.integers(0, 9)) < 1:
        k = draw(st.integers(0, 9))
        if cfg.get("concrete") or k < 2:
            return ("bconst", draw(st.booleans()))
        if k < 6 and not cfg.get("no_boolvars"):
            return draw(bool_vars(cfg.get("nbvars", 2)))
        n = draw(st.sampled_from(cfg["widths"]))
        return (draw(st.sampled_from(ir.BV_CMP)), draw(bv_tree(n, 0, cfg)), draw(bv_tree(n, 0, cfg)))
    d = depth - 1
    kind = draw(st.sampled_from(("cmp", "cmp", "cmp", "and", "or", "not", "beq", "bne", "bite")))
    if kind == "cmp":
        n = draw(st.sampled_from(cfg["widths"]))
        return (draw(st.sampled_from(ir.BV_CMP)), draw(bv_tree(n, d, cfg)), draw(bv_tree(n, d, cfg)))
    if kind in ("and", "or"):
        k = draw(st.integers(2, 3))
        return (kind, *[draw(bool_tree(d, cfg)) for _ in range(k)])
    if kind == "not":
        return ("not", draw(bool_tree(d, cfg)))
    if kind in ("beq", "bne"):
        return (kind, draw(bool_tree(d, cfg)), draw(bool_tree(d, cfg)))
    return ("bite", draw(bool_tree(d, cfg)), draw(bool_tree(d, cfg)), draw(bool_tree(d, cfg)))


@st.composite
def any_tree(draw, cfg, max_depth=4):
    depth = draw(st.integers(1, max_depth))
    if draw(st.integers(0, 2)) == 0:
        return draw(bool_tree(depth, cfg))
    n = draw(st.sampled_from(cfg["widths"]))
    return draw(bv_tree(n, depth, cfg))


# ------------------------------------------------------------------------------------------------
# shape templates: the idioms users write and that rewriters key on, all constants/widths generated.

TEMPLATE_NAMES = (
    "nested_shift", "mask_xor_cmp", "xor1_cmp", "ext_cmp", "extract_ext_cmp", "if10", "if10_and", "bswap_mix",
    "addsub_chain", "conj_eqne", "rot_mask", "minmax", "and_mask_cmp", "shift_of_ext", "extract_nest",
    "concat_extracts", "if_cmp", "not_cmp", "flatten", "sub_self", "extract_distrib", "if_nested", "uge_ne",
    "zext_zext", "reverse_pair", "concat_mask", "shift_of_concat",
)


def templates_each(cfg):
    """[(name, strategy)] -- one strategy per template, so that coverage of templates is uniform by construction
    (Hypothesis' sampled_from is deliberately non-uniform)."""
    return [(nm, template_named({**cfg, "templates": [nm]})) for nm in TEMPLATE_NAMES]


def _c(v, n):
    return ("const", v & ((1 << n) - 1), n)


@st.composite
def template(draw, cfg):
    return draw(template_named(cfg))[1]


@st.composite
def template_named(draw, cfg):
    name, tree = _template(draw, cfg)
    return (name, tree)


def _template(draw, cfg):
    name, tree = _template_inner(draw, cfg)
    return name, tree


def _template_inner(draw, cfg):
    n = draw(st.sampled_from(cfg["widths"]))
    m = (1 << n) - 1
    cv = lambda: draw(consts(n))  # noqa: E731
    x = draw(st.one_of(bv_vars(n), bv_tree(n, 1, cfg)))
    y = draw(st.one_of(bv_vars(n), bv_tree(n, 1, cfg)))
    c = draw(bool_tree(1, cfg))
    cmp_ = lambda: draw(st.sampled_from(ir.BV_CMP))  # noqa: E731
    eqne = lambda: draw(st.sampled_from(("eq", "ne")))  # noqa: E731
    names = list(TEMPLATE_NAMES)
    _unused = [
        "nested_shift", "mask_xor_cmp", "xor1_cmp", "ext_cmp", "extract_ext_cmp", "if10", "if10_and", "bswap_mix",
        "addsub_chain", "conj_eqne", "rot_mask", "minmax", "and_mask_cmp", "shift_of_ext", "extract_nest",
        "concat_extracts", "if_cmp", "not_cmp", "flatten", "sub_self", "extract_distrib", "if_nested", "uge_ne",
        "zext_zext", "reverse_pair", "concat_mask",
    ]
    if cfg.get("templates"):
        names = [x_ for x_ in names if x_ in cfg["templates"]]
    name = draw(st.sampled_from(names))
    return name, _template_body(draw, cfg, name, n, m, cv, x, y, c, cmp_, eqne)


def _template_body(draw, cfg, name, n, m, cv, x, y, c, cmp_, eqne):
    if name == "nested_shift":
        ops = ("bvshl", "bvlshr", "bvashr")
        o1, o2 = draw(st.sampled_from(ops)), draw(st.sampled_from(ops))
        return (o2, (o1, x, cv()), cv())
    if name == "mask_xor_cmp":
        mk = cv()
        inner = ("bvand", x, mk) if draw(st.booleans()) else ("bvand", mk, x)
        mk2 = mk if draw(st.integers(0, 3)) else cv()
        xr = ("bvxor", inner, mk2) if draw(st.booleans()) else ("bvxor", mk2, inner)
        return (eqne(), xr, draw(st.sampled_from((_c(0, n), cv()))))
    if name == "xor1_cmp":
        k = draw(st.sampled_from((_c(1, n), cv())))
        xr = ("bvxor", x, k) if draw(st.booleans()) else ("bvxor", k, x)
        return (eqne(), xr, draw(st.sampled_from((_c(0, n), cv()))))
    if name == "ext_cmp":
        if n < 2:
            return (eqne(), x, cv())
        k = draw(st.integers(1, n - 1))
        inner = draw(bv_vars(n - k))
        e = draw(st.sampled_from((("zext", k, inner), ("concat", _c(0, k), inner), ("sext", k, inner), ("concat", draw(consts(k)), inner))))
        return (cmp_(), e, cv())
    if name == "extract_ext_cmp":
        if n < 2:
            return (eqne(), x, cv())
        # Extract(hi,0, ZeroExt/Concat(0,A)) op b
        k = draw(st.integers(1, 8))
        aw = draw(st.integers(1, n + 2))
        total = aw + k
        if total < n:
            k = n - aw
            total = n
        inner = draw(bv_vars(aw))
        e = draw(st.sampled_from((("zext", k, inner), ("concat", _c(0, k), inner), ("concat", draw(consts(k)), inner))))
        return (cmp_(), ("extract", n - 1, 0, e), cv())
    if name == "if10":
        a, b = draw(st.sampled_from(((_c(1, n), _c(0, n)), (_c(0, n), _c(1, n)), (cv(), cv()), (_c(1, n), y), (y, _c(0, n)))))
        core = ("ite", c, a, b)
        k = draw(st.integers(0, 4))
        if k == 0:
            return ("bvnot", core)
        if k == 1:
            return (eqne(), core, draw(st.sampled_from((a, b, cv()))))
        if k == 2:
            return (eqne(), draw(st.sampled_from((a, b, cv()))), core)
        if k == 3:
            return ("bvneg", core)
        return ("extract", draw(st.integers(0, n - 1)), 0, core)
    if name == "if10_and":
        c2 = draw(bool_tree(1, cfg))
        one, zero = draw(st.sampled_from(((_c(1, n), _c(0, n)), (cv(), cv()))))
        o = draw(st.sampled_from(("bvand", "bvor", "bvxor")))
        return (o, ("ite", c, one, zero), ("ite", c2, one, zero))
    if name == "bswap_mix":
        nb = draw(st.sampled_from((16, 24, 32, 64)))
        v = draw(bv_vars(nb))
        k = draw(st.integers(0, 5))
        if k == 0:
            hi8 = draw(st.integers(1, nb // 8))
            lo8 = draw(st.integers(0, hi8 - 1))
            return ("bswap", ("extract", hi8 * 8 - 1, lo8 * 8, ("bswap", v)))
        if k == 1:
            hi = draw(st.integers(0, nb - 1))
            lo = draw(st.integers(0, hi))
            return ("extract", hi, lo, ("bswap", v))
        if k == 2:
            w2 = draw(bv_vars(8))
            return ("bswap", ("concat", ("bswap", v), w2))
        if k == 3:
            parts = [("extract", i * 8 + 7, i * 8, v) for i in range(nb // 8)]
            if draw(st.booleans()):
                parts = parts[: draw(st.integers(2, len(parts)))]
            if draw(st.booleans()):
                parts = parts[::-1]
            return ("bswap", ("concat", *parts))
        if k == 4:
            return (eqne(), ("bswap", v), ("bswap", draw(st.one_of(bv_vars(nb), consts(nb)))))
        hi = draw(st.integers(0, nb + 8 - 1))
        lo = draw(st.integers(0, hi))
        return ("extract", hi, lo, ("bswap", ("concat", v, draw(bv_vars(8)))))
    if name == "addsub_chain":
        t = x
        for _ in range(draw(st.integers(2, 4))):
            o = draw(st.sampled_from(("bvadd", "bvsub")))
            k = draw(st.sampled_from((cv(), cv(), y)))
            t = (o, t, k) if draw(st.integers(0, 3)) else (o, k, t)
        if draw(st.booleans()):
            return (eqne(), t, cv())
        return t
    if name == "conj_eqne":
        v = draw(bv_vars(n, 2))
        parts = []
        for _ in range(draw(st.integers(2, 4))):
            k = draw(st.sampled_from((cv(), draw(bv_vars(n, 2)))))
            parts.append((eqne(), v, k) if draw(st.integers(0, 3)) else (eqne(), k, v))
        return (draw(st.sampled_from(("and", "or"))), *parts)
    if name == "rot_mask":
        # (v << a | v >>> b) & mask: the rewrite fires when a + b is 32 or 64 and the mask, rotated back, is 0xffff /
        # 0xffffffff -- generated with the sum, the width and the mask chosen independently so that every near miss
        # (sum != width, mask rotated within the wrong width) is common
        nb = draw(st.sampled_from((32, 64, 64, 16, 8, 48, 96, 128)))
        v = draw(bv_vars(nb))
        total = draw(st.sampled_from((32, 64, nb, nb)))
        a = draw(st.integers(0, min(total, nb)))
        b = draw(st.sampled_from((total - a, total - a, total - a, draw(st.integers(0, nb)))))
        b = max(0, min(b, nb))
        magic = draw(st.sampled_from((0xFFFF, 0xFFFFFFFF, 0xFF, 0xFFFF0000)))
        mt = (1 << total) - 1
        rotl = ((magic << a) | (magic >> max(total - a, 0))) & mt
        msk = draw(st.sampled_from((rotl, rotl, rotl, magic, magic << a, 0xFFFF << a | 0xFFFF >> b)))
        rot = ("bvor", ("bvshl", v, _c(a, nb)), ("bvlshr", v, _c(b, nb)))
        if draw(st.integers(0, 5)) == 0:
            rot = ("bvor", rot[2], rot[1])
        return ("bvand", rot, _c(msk, nb)) if draw(st.integers(0, 3)) else ("bvand", _c(msk, nb), rot)
    if name == "minmax":
        q, r = draw(bv_vars(n, 2)), draw(st.one_of(bv_vars(n, 2), consts(n)))
        first = draw(st.booleans())
        s = ("bvsub", q, r) if first else ("bvsub", r, q)
        tt = ("bvxor", q, r)
        u = ("bvxor", s, q if draw(st.booleans()) else r)
        v = ("bvand", u, tt)
        w = ("bvxor", v, s)
        sh = draw(st.sampled_from(("bvashr", "bvlshr")))
        xx = (sh, w, _c(draw(st.sampled_from((n - 1, n - 1, n - 1, max(n - 2, 0)))), n))
        yy = ("bvand", xx, tt)
        return ("bvxor", q, yy)
    if name == "and_mask_cmp":
        mk = cv()
        inner = ("bvand", x, mk) if draw(st.booleans()) else ("bvand", mk, x)
        return (cmp_(), inner, cv())
    if name == "shift_of_ext":
        if n < 2:
            return ("bvlshr", x, cv())
        k = draw(st.integers(1, n - 1))
        inner = draw(bv_vars(n - k))
        e = draw(st.sampled_from((("zext", k, inner), ("concat", _c(0, k), inner), ("sext", k, inner))))
        amt = draw(st.sampled_from((n - k - 1, n - k, n - k + 1, k, 0, n)))
        return (draw(st.sampled_from(("bvlshr", "bvashr", "bvshl"))), e, _c(max(amt, 0), n))
    if name == "shift_of_concat":
        # a constant shift / extract of an n-ary (or nested, hence flattened) concatenation whose leading part is a zero
        # constant, with the amount at and around every part boundary
        parts_n = draw(st.integers(2, 4))
        if n < parts_n:
            return ("bvlshr", x, cv())
        ws = _split_widths(draw, n, parts_n)
        lead = draw(st.sampled_from((_c(0, ws[0]), _c(0, ws[0]), _c(0, ws[0]), draw(consts(ws[0])), draw(bv_vars(ws[0])))))
        rest = [draw(st.one_of(bv_vars(w), bv_vars(w), consts(w))) for w in ws[1:]]
        shape = draw(st.integers(0, 3))
        if shape == 0 or len(rest) < 2:
            e = ("concat", lead, *rest)
        elif shape == 1:
            e = ("concat", ("concat", lead, rest[0]), *rest[1:])
        elif shape == 2:
            e = ("concat", lead, ("concat", *rest))
        else:
            e = ("zext", ws[0], ("concat", *rest))
        bounds = set()
        acc = 0
        for w in reversed(ws):
            acc += w
            bounds |= {acc - 1, acc, acc + 1}
        amt = draw(st.sampled_from(sorted(b for b in bounds if 0 <= b <= n + 1)))
        k = draw(st.integers(0, 5))
        if k <= 3:
            return (draw(st.sampled_from(("bvlshr", "bvlshr", "bvashr", "bvshl"))), e, _c(amt, n))
        if k == 4:
            hi = min(max(amt, 0), n - 1)
            return ("extract", hi, draw(st.integers(0, hi)), e)
        return (cmp_(), ("bvlshr", e, _c(amt, n)), draw(st.sampled_from((_c(0, n), cv()))))
    if name == "extract_nest":
        big = draw(st.sampled_from((n + 1, n + 8, 2 * n, n + 3)))
        big = min(big, cfg.get("max_width", 256))
        if big <= n:
            return x
        inner_src = draw(st.one_of(bv_vars(big), bv_tree(big, 1, cfg)))
        lo = draw(st.integers(0, big - n))
        e1 = ("extract", lo + n - 1, lo, inner_src)
        hi2 = draw(st.integers(0, n - 1))
        lo2 = draw(st.integers(0, hi2))
        return ("extract", hi2, lo2, e1)
    if name == "concat_extracts":
        big = max(n, 4)
        v = draw(bv_vars(big))
        cuts = sorted(draw(st.lists(st.integers(1, big - 1), min_size=1, max_size=3, unique=True)))
        bounds = [0, *cuts, big]
        parts = [("extract", bounds[i + 1] - 1, bounds[i], v) for i in range(len(bounds) - 1)][::-1]
        if draw(st.integers(0, 3)) == 0 and len(parts) > 2:
            parts[1] = ("extract", parts[1][1], parts[1][2], draw(bv_vars(big)))
        if draw(st.integers(0, 3)) == 0:
            parts = parts[::-1]
        return ("concat", *parts)
    if name == "if_cmp":
        a, b = draw(st.sampled_from(((x, y), (cv(), cv()), (x, cv()), (cv(), y))))
        core = ("ite", c, a, b)
        other = draw(st.sampled_from((a, b, cv())))
        return (cmp_(), core, other) if draw(st.booleans()) else (cmp_(), other, core)
    if name == "not_cmp":
        return ("not", (cmp_(), x, draw(st.sampled_from((y, cv())))))
    if name == "flatten":
        o = draw(st.sampled_from(("bvand", "bvor", "bvxor", "bvmul", "bvadd")))
        items = [draw(st.sampled_from((x, y, cv(), cv(), _c(0, n), _c(m, n)))) for _ in range(draw(st.integers(3, 5)))]
        t = items[0]
        for it in items[1:]:
            t = (o, t, it) if draw(st.booleans()) else (o, it, t)
        return t
    if name == "sub_self":
        o = draw(st.sampled_from(("bvsub", "bvxor", "bvor", "bvand", "eq", "ne", "ule", "slt")))
        x2 = x if draw(st.integers(0, 3)) else y
        return (o, x, x2)
    if name == "extract_distrib":
        big = min(n + draw(st.sampled_from((1, 8, n))), cfg.get("max_width", 256))
        if big <= n:
            return x
        a, b = draw(bv_vars(big, 2)), draw(st.one_of(bv_vars(big, 2), consts(big)))
        o = draw(st.sampled_from(("bvand", "bvor", "bvxor", "bvadd", "bvnot", "ite")))
        if o == "bvnot":
            inner = ("bvnot", a)
        elif o == "ite":
            inner = ("ite", c, draw(consts(big)), draw(consts(big)))
        else:
            inner = (o, a, b)
            if draw(st.booleans()):
                inner = (o, inner, draw(st.one_of(bv_vars(big, 2), consts(big))))
        lo = draw(st.integers(0, big - n))
        return ("extract", lo + n - 1, lo, inner)
    if name == "if_nested":
        c2 = draw(st.sampled_from((c, ("not", c), draw(bool_tree(1, cfg)))))
        a, b, d = x, y, draw(st.one_of(bv_vars(n), consts(n)))
        k = draw(st.integers(0, 3))
        if k == 0:
            return ("ite", c, ("ite", c2, a, b), d)
        if k == 1:
            return ("ite", c, a, ("ite", c2, b, d))
        if k == 2:
            return ("ite", c, a, a)
        return ("bite", c, ("bconst", draw(st.booleans())), ("bconst", draw(st.booleans())))
    if name == "uge_ne":
        k = draw(st.sampled_from((y, cv())))
        o1 = draw(st.sampled_from(("uge", "ule", "sge", "ugt")))
        o2 = draw(st.sampled_from(("ne", "eq")))
        p1, p2 = (o1, x, k), (o2, x, k)
        return ("and", p1, p2) if draw(st.booleans()) else ("and", p2, p1)
    if name == "zext_zext":
        if n < 3:
            return x
        k1 = draw(st.integers(1, n - 2))
        k2 = draw(st.integers(1, n - k1 - 1))
        inner = draw(bv_vars(n - k1 - k2))
        o1, o2 = draw(st.sampled_from(("zext", "sext"))), draw(st.sampled_from(("zext", "sext")))
        return (o1, k1, (o2, k2, inner))
    if name == "concat_mask":
        if n < 3:
            return ("bvand", x, cv())
        parts_n = draw(st.sampled_from((2, 3, 3)))
        ws = _split_widths(draw, n, parts_n)
        parts = [draw(st.one_of(bv_vars(w), bv_vars(w), consts(w))) for w in ws]
        cat = ("concat", *parts)
        k = draw(st.sampled_from((n - ws[0], n - ws[0], n - ws[0], ws[-1], n - ws[0] - 1, n - ws[0] + 1, draw(st.integers(0, n)))))
        k = max(0, min(n, k))
        low = _c((1 << k) - 1, n)
        msk = draw(st.sampled_from((low, low, low, low, _c(~((1 << k) - 1), n), cv())))
        o = draw(st.sampled_from(("bvand", "bvand", "bvand", "bvand", "bvor", "bvxor")))
        e = (o, cat, msk) if draw(st.integers(0, 3)) else (o, msk, cat)
        kk = draw(st.integers(0, 5))
        if kk == 0:
            return (eqne(), e, cv())
        if kk == 1:
            hi = draw(st.integers(0, n - 1))
            return ("extract", hi, draw(st.integers(0, hi)), e)
        return e
    if name == "reverse_pair":
        nb = draw(st.sampled_from((8, 16, 32)))
        a = draw(bv_vars(nb, 2))
        b = draw(st.one_of(bv_vars(nb, 2), consts(nb)))
        o = draw(st.sampled_from(("eq", "ne", "bvand", "bvadd", "ult")))
        return (o, ("bswap", a), ("bswap", b))
    raise AssertionError(name)


def cfg_for(tier, small=False, concrete=False, **kw):
    widths = SMALL_WIDTHS if small else (WIDTHS_THOROUGH if tier == "thorough" else WIDTHS_QUICK)
    c = {"widths": widths, "nvars": 2 if small else 3, "nbvars": 2, "concrete": concrete, "max_width": 256}
    c.update(kw)
    return c
