"""Shared expression-level oracle: build an IR tree through claripy, compare with the three reference
semantics.  Used by C01 (meaning), C04 (crash-freedom), C05 (metadata), C07 (annotations)."""

from __future__ import annotations

import random
import traceback

import claripy
import z3

from . import ast_interp, build_claripy, ir, sem_z3

_CASES_SINCE_RESET = 0


def reset_caches(force=False):
    """Bound cross-case state: claripy's process-global caches are reset every 200 cases."""
    global _CASES_SINCE_RESET
    _CASES_SINCE_RESET += 1
    if force or _CASES_SINCE_RESET >= 200:
        _CASES_SINCE_RESET = 0
        for b in (claripy.backends.z3, claripy.backends.concrete, claripy.backends.vsa):
            try:
                b.downsize()
            except Exception:  # noqa: BLE001
                pass
        import gc

        gc.collect()


def exc_fingerprint(e: BaseException) -> str:
    """(type, innermost claripy frame function) -- the classic crash bucket."""
    tb = traceback.extract_tb(e.__traceback__)
    inner = None
    for fr in tb:
        if "/claripy/" in fr.filename:
            inner = fr
    where = f"{inner.filename.split('/claripy/')[-1]}:{inner.name}" if inner else "outside-claripy"
    return f"{type(e).__name__}@{where}"


def width_class(n):
    if n in (1, 8, 32, 64):
        return f"w{n}"
    if n < 8:
        return "w2-7"
    if n < 32:
        return "w9-31"
    if n < 64:
        return "w33-63"
    return "w>64"


_NAIVE = {
    "var": "BVS", "const": "BVV", "bvar": "BoolS", "bconst": "BoolV", "bvadd": "__add__", "bvsub": "__sub__",
    "bvmul": "__mul__", "bvudiv": "__floordiv__", "bvurem": "__mod__", "bvsdiv": "SDiv", "bvsrem": "SMod",
    "bvand": "__and__", "bvor": "__or__", "bvxor": "__xor__", "bvshl": "__lshift__", "bvlshr": "LShR",
    "bvashr": "__rshift__", "rotl": "RotateLeft", "rotr": "RotateRight", "bvneg": "__neg__", "bvnot": "__invert__",
    "bswap": "Reverse", "concat": "Concat", "extract": "Extract", "zext": "ZeroExt", "sext": "SignExt", "ite": "If",
    "bite": "If", "eq": "__eq__", "ne": "__ne__", "ult": "ULT", "ule": "ULE", "ugt": "UGT", "uge": "UGE",
    "slt": "SLT", "sle": "SLE", "sgt": "SGT", "sge": "SGE", "and": "And", "or": "Or", "not": "Not", "beq": "__eq__",
    "bne": "__ne__",
}


def naive_ops(t):
    if t[0] == "anno":
        return naive_ops(t[2])
    out = [_NAIVE[t[0]]]
    for c in ir.children(t):
        out.extend(naive_ops(c))
    return out


def actual_ops(a, limit=400):
    out = []
    stack = [a]
    while stack and len(out) < limit:
        x = stack.pop()
        out.append(x.op)
        stack.extend(reversed([y for y in x.args if isinstance(y, claripy.ast.Base)]))
    return out


def rewrite_class(t, r):
    if ir.n_ops(t) == 0:
        return "leaf"
    if r.op in ("BVV", "BoolV") and ir.variables(t):
        return "folded-symbolic"
    if r.op in ("BVV", "BoolV"):
        return "folded-concrete"
    return "untouched" if naive_ops(t) == actual_ops(r) else "rewritten"


def envs_for(t, spell, k=48, limit_bits=10):
    vs = ir.variables(t)
    if not vs:
        return [{}], True
    envs = ir.all_envs(vs, limit_bits)
    if envs is not None:
        return envs, True
    return ir.sample_envs(vs, k, random.Random(spell)), False


class BuildResult:
    __slots__ = ("ast", "exc", "zero_div_ok")

    def __init__(self, ast=None, exc=None, zero_div_ok=False):
        self.ast, self.exc, self.zero_div_ok = ast, exc, zero_div_ok


def build(t, spell, tap=None) -> BuildResult:
    ch = build_claripy.Chooser(spell) if spell is not None else build_claripy.Plain()
    try:
        return BuildResult(ast=build_claripy.build(t, ch, tap))
    except claripy.errors.ClaripyZeroDivisionError as e:
        return BuildResult(exc=e, zero_div_ok=ir.zero_divisor_semantically(t))
    except Exception as e:  # noqa: BLE001 - classified by the caller (C04's business)
        return BuildResult(exc=e)


def compare_meaning(t, r, spell, use_z3=True):
    """Compare claripy AST r against IR tree t.  Returns (failure or None, info dict).
    failure = (kind, observation)."""
    info = {"z3": "skipped", "exhaustive_envs": False}
    # (a) sort / width
    if ir.is_bool(t):
        if not isinstance(r, claripy.ast.Bool):
            return ("sort", {"expected": "Bool", "got": type(r).__name__}), info
    else:
        if not isinstance(r, claripy.ast.BV):
            return ("sort", {"expected": "BV", "got": type(r).__name__}), info
        if r.length != ir.width(t):
            return ("width", {"expected": ir.width(t), "got": r.length, "result": repr(r)[:300]}), info
    # (d) concrete result must equal the reference value bit for bit
    if r.op in ("BVV", "BoolV") and not ir.variables(t):
        want = ir.ev(t, {})
        got = r.args[0]
        if got != want or (isinstance(want, bool) != isinstance(got, bool)):
            return ("value", {"expected": want, "got": got}), info
    # (b) falsification on assignments through the independent AST interpreter
    envs, exhaustive = envs_for(t, spell)
    info["exhaustive_envs"] = exhaustive
    try:
        for e in envs:
            want = ir.ev(t, e)
            got = ast_interp.ev(r, e)
            if want != got:
                return ("value", {"env": e, "expected": want, "got": got, "result": repr(r)[:300]}), info
    except ast_interp.Uninterpretable as u:
        info["interp"] = f"uninterpretable:{u}"
    except KeyError as k:
        # the result mentions a variable the written tree does not have
        return ("foreign-variable", {"name": str(k), "result": repr(r)[:300]}), info
    # (c) decision: Z3 translation of the result vs independently built term
    if use_z3 and ir.variables(t):
        try:
            conv = claripy.backends.z3.convert(r)
        except Exception as e:  # noqa: BLE001
            return ("z3-convert-raises", {"exc": exc_fingerprint(e), "msg": str(e)[:200], "result": repr(r)[:300]}), info
        ref = sem_z3.build(t)
        if conv.sort() != ref.sort():
            return ("z3-sort", {"expected": str(ref.sort()), "got": str(conv.sort())}), info
        verdict, cex = sem_z3.equivalent(conv, ref)
        info["z3"] = verdict
        if verdict == "different":
            try:
                want = ir.ev(t, _complete(cex, t))
            except Exception:  # noqa: BLE001
                want = None
            return ("value", {"env": cex, "expected": want, "via": "z3", "result": repr(r)[:300]}), info
    return None, info


def _complete(cex, t):
    e = {}
    for name, w in ir.variables(t).items():
        v = cex.get(name, 0) if cex else 0
        e[name] = bool(v) if w == 0 else int(v)
    return e


def minimal_failing_subtree(t, spell, fails):
    """Smallest sub-tree (built on its own) for which fails(subtree) is truthy; falls back to t."""
    subs = sorted(set(ir.T(s) for s in ir.subtrees(t)), key=lambda s: (ir.size(s), repr(s)))
    for s in subs:
        if ir.n_ops(s) == 0:
            continue
        try:
            if fails(s):
                return s
        except Exception:  # noqa: BLE001
            continue
    return t


def skeleton(t, depth=2):
    if depth == 0 or not ir.children(t):
        return t[0]
    return t[0] + "(" + ",".join(skeleton(c, depth - 1) for c in ir.children(t)) + ")"
