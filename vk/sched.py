"""Deterministic line-level thread scheduler for C19.

Every logical thread is a real threading.Thread whose trace function hands control back to a controller before
EVERY line of the traced code objects (claripy's _enter_z3 / _exit_z3 / z3_condom and the harness's own call
bodies); exactly one thread runs at a time and the controller decides who runs next.  The module globals `gc` and
`_gc_lock` of claripy.backends.backend_z3 are rebound from outside for the duration of a run: `gc` to a model
object holding a plain flag (the real collector is never touched), `_gc_lock` to a scheduler-aware lock (a thread
that finds it held is marked blocked and is not scheduled until it is free, so a preemption inside the critical
section is explored instead of dead-locking).  Nothing in claripy is edited.
"""

from __future__ import annotations

import logging
import sys
import threading

import z3


class InjectedError(Exception):
    """An exception that is not a z3.Z3Exception leaving a wrapped body (as BackendError does from _convert)."""


def expects_raise(call):
    if call.get("raise"):
        return True
    return bool(call.get("propagate")) and any(expects_raise(k) for k in call.get("kids", ()))


class HarnessGone(Exception):
    """A name the harness rebinds no longer exists (exit 2, never a VIOLATION)."""


def target():
    import claripy.backends.backend_z3 as bz

    for name in ("_enter_z3", "_exit_z3", "condom", "_gc_lock", "_active_z3_calls", "_gc_was_enabled", "gc"):
        if not hasattr(bz, name):
            raise HarnessGone(f"claripy.backends.backend_z3.{name} not found")
    return bz


def _errors():
    import claripy.errors

    return claripy.errors


class ModelGC:
    def __init__(self, enabled):
        self.enabled = enabled
        self.toggles = 0

    def isenabled(self):
        return self.enabled

    def enable(self):
        self.enabled = True
        self.toggles += 1

    def disable(self):
        self.enabled = False
        self.toggles += 1

    def collect(self, *a):
        return 0


class SchedLock:
    """Lock whose contention is visible to the controller."""

    def __init__(self, run):
        self.run = run
        self.owner = None

    def acquire(self, blocking=True, timeout=-1):
        lt = self.run.current_logical()
        if lt is None:  # not one of ours (should not happen during a run)
            return True
        while self.owner is not None:
            if not blocking:
                return False
            lt.waiting_lock = True
            lt.yield_to_controller()
        lt.waiting_lock = False
        self.owner = lt.tid
        return True

    def release(self):
        self.owner = None

    def locked(self):
        return self.owner is not None

    def __enter__(self):
        self.acquire()
        return self

    def __exit__(self, *a):
        self.release()
        return False


class _LogCapture(logging.Handler):
    def __init__(self):
        super().__init__(level=logging.DEBUG)
        self.records = []

    def emit(self, record):
        self.records.append(record.getMessage())


class Logical:
    def __init__(self, run, tid, program):
        self.run = run
        self.tid = tid
        self.program = program
        self.sem = threading.Semaphore(0)
        self.finished = False
        self.started = False
        self.waiting_lock = False
        self.stack = ()
        self.progress = 0  # bodies entered + left so far (part of the state key)
        self.in_body = 0  # number of body frames currently on this thread's stack
        self.exc = None
        self.thread = threading.Thread(target=self._main, daemon=True)

    # -- handoff
    def yield_to_controller(self):
        self.run.ctrl_sem.release()
        self.sem.acquire()
        if self.run.abort:
            raise _Abort

    def _tracer_local(self, frame, event, arg):
        if event == "line":
            st = []
            f = frame
            while f is not None:
                if f.f_code in self.run.traced:
                    st.append((f.f_code.co_name, f.f_lineno))
                f = f.f_back
            self.stack = tuple(st)
            self.yield_to_controller()
        return self._tracer_local

    def _tracer_global(self, frame, event, arg):
        if frame.f_code in self.run.traced:
            return self._tracer_local
        return None

    def _main(self):
        self.sem.acquire()  # wait to be scheduled for the first time
        try:
            if self.run.abort:
                return
            sys.settrace(self._tracer_global)
            try:
                for call in self.program:
                    self.run.invoke(self, call)
            finally:
                sys.settrace(None)
        except _Abort:
            pass
        except BaseException as e:  # noqa: BLE001 - reported as an observation
            self.exc = e
        finally:
            self.finished = True
            self.stack = ()
            self.run.ctrl_sem.release()


class _Abort(BaseException):
    pass


class Run:
    """One execution of (programs, gc_initial) under a schedule prefix; default policy afterwards: keep running the
    current thread while it can run, else the lowest-numbered runnable thread."""

    MAX_STEPS = 4000

    def __init__(self, programs, gc_initial):
        self.bz = target()
        self.programs = programs
        self.gc_initial = gc_initial
        self.ctrl_sem = threading.Semaphore(0)
        self.abort = False
        self.threads = [Logical(self, i, p) for i, p in enumerate(programs)]
        self._by_ident = {}
        self.model = ModelGC(gc_initial)
        self.lock = SchedLock(self)
        self.log = _LogCapture()
        self.violations = []  # (kind, step, detail)
        self.trace = []  # (chosen, runnable tuple, state key, last)
        self.wrapped = {}
        self.traced = set()
        self._mk_functions()

    # -- the harness's own call bodies: nested condom-wrapped functions
    def _mk_functions(self):
        bz = self.bz
        run = self

        def body(lt, call):
            lt.in_body += 1
            lt.progress += 1
            try:
                for kid in call.get("kids", ()):
                    if call.get("propagate"):
                        # the kid's error (already a ClaripyZ3Error, or a foreign exception) leaves this wrapped call too
                        run._wrapped_body(lt, kid)
                        continue
                    try:
                        run.invoke(lt, kid)
                    except _errors().ClaripyZ3Error:
                        pass
                if call.get("raise") == "other":
                    raise InjectedError("injected (not a Z3Exception)")
                if call.get("raise"):
                    raise z3.Z3Exception("injected")
                return None
            finally:
                lt.progress += 1
                lt.in_body -= 1

        self._body = body
        self._wrapped_body = bz.condom(body)
        self.traced = {bz._enter_z3.__code__, bz._exit_z3.__code__, self._wrapped_body.__code__, body.__code__}

    def invoke(self, lt, call):
        try:
            self._wrapped_body(lt, call)
        except (_errors().ClaripyZ3Error, InjectedError):
            if not expects_raise(call):
                raise

    def current_logical(self):
        return self._by_ident.get(threading.get_ident())

    # -- state
    def state_key(self, last):
        bz = self.bz
        return (
            tuple((t.stack, t.progress, t.finished, t.waiting_lock, t.started) for t in self.threads),
            self.lock.owner,
            bz._active_z3_calls,
            bz._gc_was_enabled,
            self.model.enabled,
            last,
        )

    def runnable(self):
        return tuple(t.tid for t in self.threads if not t.finished and not (t.waiting_lock and self.lock.owner is not None))

    def check_invariants(self, step):
        bz = self.bz
        busy = [t.tid for t in self.threads if t.in_body > 0]
        if busy and self.model.enabled:
            self.violations.append(("gc-enabled-while-call-in-progress", step, {"threads_in_call": busy, "active": bz._active_z3_calls}))
        if bz._active_z3_calls < 0:
            self.violations.append(("count-negative", step, {"active": bz._active_z3_calls}))

    def execute(self, prefix, stop_on_violation=True):
        bz = self.bz
        saved = (bz.gc, bz._gc_lock, bz._active_z3_calls, bz._gc_was_enabled)
        bz.gc, bz._gc_lock = self.model, self.lock
        bz._active_z3_calls, bz._gc_was_enabled = 0, False
        bz.log.addHandler(self.log)
        old_level = bz.log.level
        old_disable = logging.root.manager.disable
        logging.disable(logging.NOTSET)
        bz.log.setLevel(logging.ERROR)
        try:
            for t in self.threads:
                t.thread.start()
                self._by_ident[t.thread.ident] = t
            last = None
            step = 0
            while True:
                runnable = self.runnable()
                if not runnable:
                    if any(not t.finished for t in self.threads):
                        self.violations.append(("deadlock", step, {"lock_owner": self.lock.owner}))
                    break
                if step >= self.MAX_STEPS:
                    self.violations.append(("no-termination", step, {}))
                    break
                if step < len(prefix) and prefix[step] in runnable:
                    chosen = prefix[step]
                elif step < len(prefix):
                    chosen = runnable[prefix[step] % len(runnable)]
                elif last in runnable:
                    chosen = last
                else:
                    chosen = runnable[0]
                self.trace.append((chosen, runnable, self.state_key(last), last))
                t = self.threads[chosen]
                t.started = True
                t.sem.release()
                self.ctrl_sem.acquire()
                last = chosen
                step += 1
                self.check_invariants(step)
                for lt in self.threads:
                    if lt.exc is not None:
                        self.violations.append(("thread-exception:" + type(lt.exc).__name__, step, {"exc": repr(lt.exc)[:200], "thread": lt.tid}))
                        lt.exc = None
                if self.violations and stop_on_violation:
                    break
            if not self.violations:
                if self.model.enabled != self.gc_initial:
                    self.violations.append(("final-gc-state-differs", step, {"initial": self.gc_initial, "final": self.model.enabled}))
                if bz._active_z3_calls != 0:
                    self.violations.append(("final-count-nonzero", step, {"active": bz._active_z3_calls}))
                if any("underflow" in m for m in self.log.records):
                    self.violations.append(("underflow-logged", step, {"log": self.log.records[:3]}))
            self.final_step = step
        finally:
            # let every unfinished thread run to its end without tracing
            self.abort = True
            for t in self.threads:
                if not t.finished:
                    t.sem.release()
            for t in self.threads:
                t.thread.join(timeout=10)
            bz.log.removeHandler(self.log)
            bz.log.setLevel(old_level)
            logging.disable(old_disable)
            bz.gc, bz._gc_lock, bz._active_z3_calls, bz._gc_was_enabled = saved
        return self


def preemptions(trace):
    n = 0
    for chosen, runnable, _k, last in trace:
        if last is not None and last in runnable and chosen != last:
            n += 1
    return n


def explore(programs, gc_initial, bound, on_run, out_of_time=lambda: False, max_runs=None):
    """bound = None: every reachable state of the configuration is visited and every scheduling choice in every state is
    taken once (complete exploration of the line-level interleavings up to state equality).  bound = B: iterative context
    bounding, every schedule with <= B preemptions (pruned by visited states).  on_run(run, prefix) is called for each
    executed schedule.  Returns stats."""
    visited = {}
    stack = [[]]
    runs = 0
    transitions = 0
    complete = True
    while stack:
        if out_of_time() or (max_runs is not None and runs >= max_runs):
            complete = False
            break
        prefix = stack.pop()
        r = Run(programs, gc_initial).execute(prefix)
        runs += 1
        transitions += len(r.trace)
        on_run(r, prefix)
        used = 0
        for i, (chosen, runnable, key, last) in enumerate(r.trace):
            is_pre = last is not None and last in runnable and chosen != last
            if bound is None:
                key = key[:-1]  # who ran last does not matter when every choice is expanded in every state
            seen = visited.get(key)
            if seen is None or seen > used:
                visited[key] = 0 if bound is None else used
                if i >= len(prefix):
                    for alt in runnable:
                        if alt == chosen:
                            continue
                        cost = used + (1 if (last is not None and last in runnable and alt != last) else 0)
                        if bound is None or cost <= bound:
                            stack.append([c for c, *_ in r.trace[:i]] + [alt])
            if is_pre:
                used += 1
    return {"runs": runs, "states": len(visited), "transitions": transitions, "complete": complete}
