"""Tier/seed/shard runner, failure collection, known-finding matching, replay files, evidence, exit codes.

Contract (MANIFEST): exit 0 = property held on everything explored (possibly KNOWN-FINDING lines);
exit 1 + "VIOLATION property=<id> replay=<path>" per distinct fingerprint otherwise; exit 2 = harness error.
"""

from __future__ import annotations

import concurrent.futures as cf
import hashlib
import importlib
import json
import multiprocessing
import os
import sys
import time
import traceback
from collections import Counter

from . import env

EVIDENCE_DIR = os.environ.get("VERIF_EVIDENCE_DIR") or os.path.join(env.VERIF_DIR, "evidence")
REPLAY_DIR = os.path.join(os.environ.get("VERIF_EVIDENCE_DIR") or env.VERIF_DIR, "replays")
KNOWN_FILE = os.path.join(env.VERIF_DIR, "known_findings.json")
SCHEMA_FILE = os.path.join(env.VERIF_DIR, "schemas", "EVIDENCE.schema.json")

NPROC = int(os.environ.get("VERIF_NPROC", "16"))


def canon(obj) -> str:
    return json.dumps(obj, sort_keys=True, separators=(",", ":"), default=_json_default)


def _json_default(o):
    if isinstance(o, (set, frozenset)):
        return sorted(o)
    if isinstance(o, bytes):
        return o.hex()
    if isinstance(o, tuple):
        return list(o)
    return repr(o)


def digest(obj) -> bytes:
    return hashlib.sha1(canon(obj).encode()).digest()[:8]


def jsonable(obj):
    return json.loads(canon(obj))


def load_module(prop_id: str):
    return importlib.import_module(f"vk.props.{prop_id.lower()}")


# ----------------------------------------------------------------------------------------------
# known findings


def load_known(prop_id: str):
    if not os.path.exists(KNOWN_FILE):
        return []
    with open(KNOWN_FILE) as f:
        data = json.load(f)
    return [e for e in data.get("findings", []) if e.get("property") == prop_id]


class KnownMatcher:
    """Attributes a failure to an *open* known finding.

    An entry matches iff its fingerprint equals the failure's AND (a) the named predicate of the property
    module accepts (case, observation) -- the predicate recomputes the specific wrong answer this defect
    produces -- or (b) the exact "line" of the failure is in the entry's enumerated data file.
    Fixed entries suppress nothing.
    """

    def __init__(self, prop_id, mod):
        self.entries = [e for e in load_known(prop_id) if e.get("status") == "open"]
        self.mod = mod
        self._lines = {}

    def _load_lines(self, entry):
        eid = entry["id"]
        if eid not in self._lines:
            import gzip

            path = os.path.join(env.VERIF_DIR, entry["match"]["lines_file"])
            with gzip.open(path, "rt") as f:
                self._lines[eid] = frozenset(l.rstrip("\n") for l in f)
        return self._lines[eid]

    def match(self, fp, case, obs):
        for e in self.entries:
            m = e.get("match", {})
            fps = m.get("fingerprints") or [m.get("fingerprint")]
            if fp not in fps:
                continue
            if "lines_file" in m:
                line = self.mod.finding_line(case, obs)
                if line in self._load_lines(e):
                    return e["id"]
                continue
            pred = m.get("predicate")
            if pred is None:
                continue  # an entry without predicate or list identifies nothing
            if getattr(self.mod, "KNOWN_PREDICATES")[pred](case, obs):
                return e["id"]
        return None


# ----------------------------------------------------------------------------------------------
# worker side


class Ctx:
    MAX_PER_FP = 3

    def __init__(self, prop_id, mod, shard, tier, seed, deadline):
        self.prop_id = prop_id
        self.shard = shard
        self.tier = tier
        self.seed = seed
        self.deadline = deadline
        self.evaluations = 0
        self.nontrivial = set()
        self.classes = Counter()
        self.counters = Counter()
        self.samples = []
        self._sample_big = None
        self.failures = {}  # fp -> list[(size, case, obs)]
        self.fail_counts = Counter()
        self.budget_exhausted = False
        self.known = KnownMatcher(prop_id, mod)
        self.extra = {}

    def out_of_time(self):
        if time.time() > self.deadline:
            self.budget_exhausted = True
            return True
        return False

    def case(self, key, nontrivial=False, classes=(), sample=None):
        self.evaluations += 1
        for c in classes:
            self.classes[c] += 1
        if nontrivial:
            d = key if isinstance(key, bytes) else digest(key)
            if d not in self.nontrivial:
                self.nontrivial.add(d)
                if sample is not None:
                    if len(self.samples) < 2:
                        self.samples.append(sample)
                    else:
                        s = len(canon(sample))
                        if self._sample_big is None or s > self._sample_big[0]:
                            self._sample_big = (s, sample)

    def count(self, name, n=1):
        self.counters[name] += n

    def fail(self, fp, case, obs):
        kid = self.known.match(fp, case, obs)
        if kid is not None:
            self.counters["excluded_known:" + kid] += 1
            return False
        self.fail_counts[fp] += 1
        lst = self.failures.setdefault(fp, [])
        size = len(canon(case))
        lst.append((size, jsonable(case), jsonable(obs)))
        lst.sort(key=lambda x: (x[0], canon(x[1])))
        del lst[self.MAX_PER_FP :]
        return True

    def result(self):
        samples = list(self.samples)
        if self._sample_big is not None:
            samples.append(self._sample_big[1])
        return {
            "shard": self.shard,
            "evaluations": self.evaluations,
            "nontrivial": b"".join(sorted(self.nontrivial)),
            "classes": dict(self.classes),
            "counters": dict(self.counters),
            "samples": jsonable(samples),
            "failures": self.failures,
            "fail_counts": dict(self.fail_counts),
            "budget_exhausted": self.budget_exhausted,
            "extra": jsonable(self.extra),
        }


def _worker(prop_id, shard, tier, seed, deadline):
    try:
        # a runaway allocation (Z3 tactics can take tens of GB on some terms) must surface as MemoryError / a Z3 "out of
        # memory" exception inside the case, not as the kernel killing arbitrary processes of the machine
        try:
            import resource

            lim = int(os.environ.get("VERIF_RLIMIT_AS_GB", "12")) << 30
            resource.setrlimit(resource.RLIMIT_AS, (lim, lim))
        except (ValueError, OSError, ImportError):
            pass
        env.setup_paths()
        env.import_claripy()
        mod = load_module(prop_id)
        ctx = Ctx(prop_id, mod, shard, tier, seed, deadline)
        mod.run_shard(shard, ctx)
        return ("ok", ctx.result())
    except BaseException:  # noqa: BLE001 - reported to the parent as harness error
        return ("error", traceback.format_exc())


# ----------------------------------------------------------------------------------------------
# parent side


def _write_replay(prop_id, fp, case, obs, tier, seed):
    os.makedirs(REPLAY_DIR, exist_ok=True)
    h = hashlib.sha1((prop_id + "|" + fp).encode()).hexdigest()[:12]
    path = os.path.join(REPLAY_DIR, f"{prop_id}-{h}.json")
    with open(path, "w") as f:
        json.dump(
            {"property": prop_id, "fingerprint": fp, "case": case, "observation": obs, "tier": tier, "seed": seed,
             "hashseed": int(os.environ.get("PYTHONHASHSEED", "0") or 0)},
            f,
            indent=1,
            sort_keys=True,
            default=_json_default,
        )
    return path


def _validate_evidence(ev):
    try:
        import jsonschema
    except ImportError as e:  # pragma: no cover
        raise env.HarnessError(f"jsonschema missing: {e}") from e
    with open(SCHEMA_FILE) as f:
        schema = json.load(f)
    jsonschema.validate(ev, schema)


def replay_failures(mod, case):
    """Re-executes one case without any generator; returns list of (fingerprint, observation)."""
    return list(mod.replay(case))


def run_known_replays(prop_id, mod):
    """Re-validates every open finding's minimal input; prints KNOWN-FINDING lines."""
    out = []
    for e in load_known(prop_id):
        if e.get("status") != "open":
            continue
        path = os.path.join(env.VERIF_DIR, e["replay"])
        with open(path) as f:
            rep = json.load(f)
        cases = rep["cases"] if "cases" in rep else [rep["case"]]
        m = e.get("match", {})
        fps = set(m.get("fingerprints") or [m.get("fingerprint")])
        still = False
        for c in cases:
            for fp, _obs in replay_failures(mod, c):
                if fp in fps:
                    still = True
        if still:
            print(f"KNOWN-FINDING: property={prop_id} {e['id']}: {e['what']}", flush=True)
        out.append({"id": e["id"], "reproduced": still})
    return out


def run_regressions(prop_id, mod, matcher):
    d = os.path.join(env.VERIF_DIR, "regressions", prop_id)
    out = {"files": [], "failures": []}
    if not os.path.isdir(d):
        return out
    for name in sorted(os.listdir(d)):
        if not name.endswith(".json"):
            continue
        with open(os.path.join(d, name)) as f:
            rep = json.load(f)
        out["files"].append(name)
        for c in rep["cases"] if "cases" in rep else [rep["case"]]:
            for fp, obs in replay_failures(mod, c):
                if matcher.match(fp, c, obs) is None:
                    out["failures"].append((fp, c, obs))
    return out


def run_property(prop_id, tier, seed=None, replay=None):
    t0 = time.time()
    env.setup_paths()
    env.import_claripy()
    mod = load_module(prop_id)
    seed = env.seed() if seed is None else seed

    if replay is not None:
        with open(replay) as f:
            rep = json.load(f)
        cases = rep["cases"] if "cases" in rep else [rep["case"]]
        bad = False
        for c in cases:
            for fp, obs in replay_failures(mod, c):
                bad = True
                print(f"replayed failure fingerprint={fp} observation={canon(obs)[:600]}")
        if bad:
            print(f"VIOLATION property={prop_id} replay={replay}")
            return 1
        print("replay: no failure")
        return 0

    known_status = run_known_replays(prop_id, mod)

    budget = mod.BUDGET_S[tier] if hasattr(mod, "BUDGET_S") else {"quick": 240, "thorough": 3000}[tier]
    budget = float(os.environ.get("VERIF_BUDGET_S", budget))
    deadline = time.time() + budget
    shards = mod.shards(tier, seed)
    results = []
    errors = []
    hard_timeout = False
    ctx_mp = multiprocessing.get_context("spawn")
    nproc = min(NPROC, max(1, len(shards)))
    with cf.ProcessPoolExecutor(max_workers=nproc, mp_context=ctx_mp, max_tasks_per_child=getattr(mod, "TASKS_PER_CHILD", None)) as ex:
        futs = [ex.submit(_worker, prop_id, sh, tier, seed, deadline) for sh in shards]
        grace = getattr(mod, "GRACE_S", 120)
        try:
            for fut in cf.as_completed(futs, timeout=budget + grace):
                try:
                    status, payload = fut.result()
                except cf.process.BrokenProcessPool as e:
                    errors.append(f"worker process died: {e}")
                    continue
                if status == "ok":
                    results.append(payload)
                else:
                    errors.append(payload)
        except cf.TimeoutError:
            hard_timeout = True
            for fut in futs:
                fut.cancel()
            for p in list(getattr(ex, "_processes", {}).values()):
                try:
                    p.kill()
                except Exception:  # noqa: BLE001
                    pass
    if errors:
        sys.stderr.write("HARNESS ERROR in worker(s):\n" + "\n----\n".join(errors[:3]) + "\n")
        return 2

    # merge
    evaluations = sum(r["evaluations"] for r in results)
    nontriv = set()
    for r in results:
        b = r["nontrivial"]
        nontriv.update(b[i : i + 8] for i in range(0, len(b), 8))
    classes = Counter()
    counters = Counter()
    for r in results:
        classes.update(r["classes"])
        counters.update(r["counters"])
    samples = []
    for r in sorted(results, key=lambda r: canon(r["shard"])):
        for s in r["samples"]:
            if len(samples) < 8:
                samples.append(s)
    extra = {}
    for r in results:
        for k, v in r["extra"].items():
            if isinstance(v, (int, float)) and not isinstance(v, bool):
                extra[k] = extra.get(k, 0) + v
            elif isinstance(v, list):
                extra.setdefault(k, [])
                for x in v:
                    if x not in extra[k] and len(extra[k]) < 200:
                        extra[k].append(x)
            else:
                extra[k] = v
    failures = {}
    fail_counts = Counter()
    for r in results:
        fail_counts.update(r["fail_counts"])
        for fp, lst in r["failures"].items():
            failures.setdefault(fp, []).extend(tuple(x) for x in lst)
    budget_exhausted = hard_timeout or any(r["budget_exhausted"] for r in results)
    matcher = KnownMatcher(prop_id, mod)

    # saved regression inputs (shrunk cases of defects that were repaired): re-executed on every run without a generator
    regress = run_regressions(prop_id, mod, matcher)
    counters["regression_inputs"] = len(regress["files"])
    for fp, case, obs in regress["failures"]:
        fail_counts[fp] += 1
        failures.setdefault(fp, []).append((len(canon(case)), jsonable(case), jsonable(obs)))

    # shrink + replay files
    violations = []
    shrink_deadline = time.time() + (60 if tier == "quick" else 600)
    for fp in sorted(failures):
        lst = sorted(failures[fp], key=lambda x: (x[0], canon(x[1])))
        size, case, obs = lst[0]
        if hasattr(mod, "shrink") and time.time() < shrink_deadline:
            try:
                case2, obs2 = mod.shrink(case, obs, fp, matcher, shrink_deadline)
                case, obs = jsonable(case2), jsonable(obs2)
            except Exception:  # noqa: BLE001 - shrinking is best effort; the unshrunk case is still a valid replay
                sys.stderr.write("shrink failed (kept unshrunk case):\n" + traceback.format_exc())
        path = _write_replay(prop_id, fp, case, obs, tier, seed)
        violations.append((fp, path, fail_counts[fp]))
        print(f"VIOLATION property={prop_id} replay={path}", flush=True)
        print(f"  fingerprint={fp} occurrences={fail_counts[fp]} observation={canon(obs)[:400]}", flush=True)

    level = getattr(mod, "LEVEL", "exploration")
    # cases produced by an enumerator are distinct by construction; enumerating shards count their non-trivial ones
    # instead of hashing millions of them
    enumerated_nontrivial = int(extra.pop("enumerated_distinct_nontrivial", 0))
    cov = {
        "evaluations": evaluations,
        "distinct_nontrivial": len(nontriv) + enumerated_nontrivial,
        "distinct_nontrivial_hashed": len(nontriv),
        "distinct_nontrivial_enumerated": enumerated_nontrivial,
        "rule": mod.RULE,
        "samples": samples if samples else ["(no non-trivial sample recorded)"],
        "exhaustive": bool(extra.pop("exhaustive", False)) and not budget_exhausted,
        "classes": dict(sorted(classes.items(), key=lambda kv: (-kv[1], kv[0]))[:300]),
        "counters": dict(sorted(counters.items())),
        "budget_exhausted": budget_exhausted,
        "shards": len(shards),
        "shards_completed": len(results),
        "known_findings": known_status,
        "violation_fingerprints": [{"fingerprint": fp, "replay": os.path.relpath(p, env.VERIF_DIR), "occurrences": n} for fp, p, n in violations],
    }
    cov.update(extra)
    ev = {
        "property_id": prop_id,
        "tier": tier,
        "seed": seed,
        "level": level,
        "coverage": cov,
        "assumptions": list(getattr(mod, "ASSUMPTIONS", [])),
        "wall_s": round(time.time() - t0, 2),
        "violations": len(violations),
    }
    try:
        _validate_evidence(ev)
    except Exception as e:  # noqa: BLE001
        sys.stderr.write(f"HARNESS ERROR: evidence does not validate: {e}\n")
        os.makedirs(EVIDENCE_DIR, exist_ok=True)
        with open(os.path.join(EVIDENCE_DIR, f"{prop_id}.invalid.json"), "w") as f:
            json.dump(ev, f, indent=1, default=_json_default)
        return 2
    os.makedirs(EVIDENCE_DIR, exist_ok=True)
    with open(os.path.join(EVIDENCE_DIR, f"{prop_id}.json"), "w") as f:
        json.dump(ev, f, indent=1, sort_keys=True, default=_json_default)
    print(
        f"{prop_id} tier={tier} seed={seed} evaluations={evaluations} distinct_nontrivial={cov['distinct_nontrivial']} "
        f"violations={len(violations)} budget_exhausted={budget_exhausted} wall={ev['wall_s']}s",
        flush=True,
    )
    return 1 if violations else 0
