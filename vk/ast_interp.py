"""Oracle 3: an interpreter for *claripy ASTs* (what claripy returned), by op name, SMT-LIB total
semantics.  Touches neither the concrete nor the Z3 backend; reads only .op/.args/.length."""

from __future__ import annotations

from . import ir


class Uninterpretable(Exception):
    pass


def _m(n):
    return (1 << n) - 1


_BIN = {
    "__floordiv__": "bvudiv",
    "__mod__": "bvurem",
    "SDiv": "bvsdiv",
    "SMod": "bvsrem",
    "__lshift__": "bvshl",
    "__rshift__": "bvashr",
    "LShR": "bvlshr",
    "RotateLeft": "rotl",
    "RotateRight": "rotr",
}
_NARY = {"__add__": "bvadd", "__mul__": "bvmul", "__and__": "bvand", "__or__": "bvor", "__xor__": "bvxor", "__sub__": "bvsub"}
_CMP = {"__eq__": "eq", "__ne__": "ne", "ULT": "ult", "ULE": "ule", "UGT": "ugt", "UGE": "uge",
        "SLT": "slt", "SLE": "sle", "SGT": "sgt", "SGE": "sge"}


def ev(a, env, memo=None):
    """Value (int / bool) of claripy AST `a` under env: variable name -> value."""
    if memo is None:
        memo = {}
    key = id(a)
    if key in memo:
        return memo[key]
    r = _ev(a, env, memo)
    memo[key] = r
    return r


def _ev(a, env, memo):
    op = a.op
    args = a.args
    if op == "BVV":
        if args[0] is None:
            raise Uninterpretable("empty BVV")
        return args[0] & _m(args[1])
    if op == "BVS":
        return env[args[0]] & _m(a.length)
    if op == "BoolV":
        return bool(args[0])
    if op == "BoolS":
        return bool(env[args[0]])
    if op in _NARY:
        n = a.length
        vals = [ev(x, env, memo) for x in args]
        acc = vals[0]
        for v in vals[1:]:
            acc = ir.bv_binop(_NARY[op], acc, v, n)
        return acc
    if op in _BIN:
        return ir.bv_binop(_BIN[op], ev(args[0], env, memo), ev(args[1], env, memo), a.length)
    if op == "__neg__":
        return (-ev(args[0], env, memo)) & _m(a.length)
    if op == "__invert__":
        return ev(args[0], env, memo) ^ _m(a.length)
    if op == "Reverse":
        n = args[0].length
        if n % 8 != 0:
            raise Uninterpretable("Reverse of non-byte width")
        return ir.bswap(ev(args[0], env, memo), n)
    if op == "Concat":
        v = 0
        for x in args:
            v = (v << x.length) | ev(x, env, memo)
        return v
    if op == "Extract":
        hi, lo, x = args
        return (ev(x, env, memo) >> lo) & _m(hi - lo + 1)
    if op == "ZeroExt":
        return ev(args[1], env, memo)
    if op == "SignExt":
        n = args[1].length
        v = ev(args[1], env, memo)
        return (v - (1 << n) if v >> (n - 1) else v) & _m(n + args[0])
    if op == "If":
        return ev(args[1], env, memo) if ev(args[0], env, memo) else ev(args[2], env, memo)
    if op in _CMP:
        x, y = args
        vx, vy = ev(x, env, memo), ev(y, env, memo)
        if isinstance(vx, bool) or isinstance(vy, bool):
            if op == "__eq__":
                return bool(vx) == bool(vy)
            if op == "__ne__":
                return bool(vx) != bool(vy)
            raise Uninterpretable(op + " on Bool")
        return ir.bv_cmp(_CMP[op], vx, vy, x.length)
    if op == "And":
        return all(ev(x, env, memo) for x in args)
    if op == "Or":
        return any(ev(x, env, memo) for x in args)
    if op == "Not":
        return not ev(args[0], env, memo)
    raise Uninterpretable(op)


def leaf_symbols(a, acc=None, seen=None):
    """name -> (op, length) of every leaf symbol reachable through .args (independent walk)."""
    if acc is None:
        acc = {}
        seen = set()
    if id(a) in seen:
        return acc
    seen.add(id(a))
    if a.op in ("BVS", "BoolS", "FPS", "StringS"):
        acc[a.args[0]] = (a.op, a.length)
    else:
        for x in a.args:
            if hasattr(x, "op") and hasattr(x, "args"):
                leaf_symbols(x, acc, seen)
    return acc


def skeleton(a, depth=3):
    if not hasattr(a, "op"):
        return repr(a)
    if depth == 0 or a.op in ("BVS", "BVV", "BoolS", "BoolV", "FPS", "FPV", "StringS", "StringV"):
        return a.op
    return a.op + "(" + ",".join(skeleton(x, depth - 1) for x in a.args if hasattr(x, "op")) + ")"
