"""Solver histories over string variables with finite domains (C11/C12/C14 for SolverStrings and the other frontends on
string constraints).

Every history starts by confining each string variable to a generated finite domain (a disjunction of equalities with
literals), so the model set is the finite product of the domains filtered by the constraints added so far; it is kept
as an explicit list of environments and every constraint / query expression is evaluated on it with the Python SMT-LIB
reference of vk.strcheck.  The oracle therefore never asks a solver.

Constraint IR on top of strcheck's: ("and", a, b, ...) ("or", a, b, ...) ("not", a) ("ult", i, j) ("ule", i, j)
("eq", i, j) over the 64-bit integer terms.
"""

from __future__ import annotations

import itertools
import threading
import time

import claripy
from hypothesis import strategies as st

from . import exprcheck, strcheck

M64 = strcheck.M64
VARS = ("s", "t")
SUT_TIMEOUT_MS = 2000

FACTORIES = {
    "SolverStrings": lambda: claripy.SolverStrings(timeout=SUT_TIMEOUT_MS),
    "Solver": lambda: claripy.Solver(timeout=SUT_TIMEOUT_MS),
    "SolverCacheless": lambda: claripy.SolverCacheless(timeout=SUT_TIMEOUT_MS),
    "SolverComposite": lambda: claripy.SolverComposite(template_solver=claripy.solvers.SolverCompositeChild(timeout=SUT_TIMEOUT_MS)),
}


class Watchdog:
    """Z3's sequence solver does not always honour its timeout (a check over lengths of concatenations was seen to run for
    20 minutes with a 20 s timeout).  A daemon thread interrupts the main Z3 context when a solver call overruns; claripy then
    raises a solver error and the step counts as 'solver gave up'."""

    def __init__(self, limit_s):
        self.limit_s = limit_s
        self.deadline = None
        self.fired = 0
        self._lock = threading.Lock()
        self._thread = None

    def _loop(self):
        import z3

        while True:
            time.sleep(0.25)
            with self._lock:
                # decided and carried out under the lock that __exit__ takes: an interrupt can only be issued while the
                # call it is meant for is still in progress, never land in the next one
                if self.deadline is not None and time.time() > self.deadline:
                    self.fired += 1
                    z3.main_ctx().interrupt()
                    self.deadline = time.time() + 2  # again, until the call returns

    def __enter__(self):
        if self._thread is None:
            self._thread = threading.Thread(target=self._loop, daemon=True)
            self._thread.start()
        with self._lock:
            self.deadline = time.time() + self.limit_s
        return self

    def __exit__(self, *a):
        with self._lock:
            self.deadline = None
        return False


WATCHDOG = Watchdog(SUT_TIMEOUT_MS / 1000 + 2)


def T(x):
    return strcheck.T(x)


def sort_of(t):
    if t[0] in ("and", "or", "not", "ult", "ule", "eq"):
        return "bool"
    return strcheck.sort_of(t)


def ev(t, env):
    op = t[0]
    if op == "and":
        return all(ev(c, env) for c in t[1:])
    if op == "or":
        return any(ev(c, env) for c in t[1:])
    if op == "not":
        return not ev(t[1], env)
    if op == "ult":
        return ev(t[1], env) < ev(t[2], env)
    if op == "ule":
        return ev(t[1], env) <= ev(t[2], env)
    if op == "eq":
        return ev(t[1], env) == ev(t[2], env)
    return strcheck.ev(t, env)  # the connectives above never occur below a string operator


def build(t):
    op = t[0]
    if op == "and":
        return claripy.And(*[build(c) for c in t[1:]])
    if op == "or":
        return claripy.Or(*[build(c) for c in t[1:]])
    if op == "not":
        return claripy.Not(build(t[1]))
    if op == "ult":
        return claripy.ULT(build(t[1]), build(t[2]))
    if op == "ule":
        return claripy.ULE(build(t[1]), build(t[2]))
    if op == "eq":
        return build(t[1]) == build(t[2])
    return strcheck.build(t)


def variables(t):
    if t[0] == "svar":
        return {t[1]}
    if t[0] in ("sconst", "const"):
        return set()
    out = set()
    for c in t[1:]:
        if isinstance(c, tuple):
            out |= variables(c)
    return out


def pretty(t):
    if t[0] in ("and", "or", "not", "ult", "ule", "eq"):
        return t[0] + "(" + ",".join(pretty(c) for c in t[1:]) + ")"
    return strcheck.pretty(t)


class Live:
    __slots__ = ("solver", "M", "added")

    def __init__(self, solver, M, added):
        self.solver, self.M, self.added = solver, M, added


class Result:
    def __init__(self):
        self.fails = []
        self.steps_run = 0
        self.stats = {"adds": 0, "queries": 0, "unsat_reached": 0, "extras": 0, "repeat_queries": 0, "branches": 0, "maint": 0,
                      "solver_gave_up": 0, "answers_checked": 0, "exhausting_evals": 0}


class StrMachine:
    MAX_LIVE = 4

    def __init__(self, frontend):
        self.frontend = frontend
        self.res = Result()
        self.live = []
        self._seen = set()
        self.abandon = False

    def fail(self, clause, i, step, obs):
        self.res.fails.append((f"{self.frontend}:str:{step['op']}:{clause}", {"step": i, "op": step, **obs}))

    def run(self, case, stop_on_fail=True):
        doms = case["domains"]
        names = sorted(doms)
        envs = [dict(zip(names, combo, strict=True)) for combo in itertools.product(*[doms[n] for n in names])]
        s0 = FACTORIES[self.frontend]()
        self.live = [Live(s0, envs, [])]
        dom_cs = [("or", *[("seq", ("svar", n), ("sconst", d)) for d in doms[n]]) for n in names]
        hist = [{"op": "add", "cs": dom_cs}, *case["history"]]
        for i, step in enumerate(hist):
            self.res.steps_run += 1
            fired = WATCHDOG.fired
            self.step(i, step)
            if self.res.fails and stop_on_fail:
                break
            if WATCHDOG.fired != fired:
                self.res.stats["abandoned_after_overrun"] = 1  # the rest of the history would mostly overrun as well
                break
            if self.abandon:
                self.res.stats["abandoned_after_failed_add"] = 1
                break
        return self.res

    def _call(self, i, step, fn, allow_unsat):
        fired = WATCHDOG.fired
        try:
            with WATCHDOG:
                return "ok", fn()
        except KeyboardInterrupt:
            if WATCHDOG.fired == fired:
                raise
            self.res.stats["solver_gave_up"] += 1  # claripy turns Z3's "interrupted" into KeyboardInterrupt
            self.res.stats["watchdog"] = self.res.stats.get("watchdog", 0) + 1
            return "gave_up", "interrupted"
        except claripy.errors.UnsatError:
            if not allow_unsat:
                self.fail("UnsatError-on-satisfiable", i, step, {})
                return "fail", None
            return "unsat", None
        except claripy.errors.ClaripyZ3Error as e:
            # the sequence solver gave up (timeout, "reached max unfolding", unknown): a claripy error, no answer -- the
            # case C17 describes; the history goes on and later answers are still checked
            self.res.stats["solver_gave_up"] += 1
            return "gave_up", repr(e.__cause__)[:80]
        except claripy.errors.ClaripySolverInterruptError:
            self.res.stats["solver_gave_up"] += 1
            return "gave_up", None
        except Exception as e:  # noqa: BLE001
            self.fail("raises:" + exprcheck.exc_fingerprint(e), i, step, {"exc": repr(e)[:200]})
            return "fail", None

    def step(self, i, step):
        op = step["op"]
        lv = self.live[step.get("s", 0) % len(self.live)]
        s = lv.solver
        extras_t = [T(t) for t in step.get("extra", ())]
        extras = tuple(build(t) for t in extras_t)
        if extras_t:
            self.res.stats["extras"] += 1
        if op in ("eval", "min", "max", "solution", "batch"):
            k = (id(s), op, repr(step.get("e", step.get("es"))), step.get("signed"))
            if k in self._seen:
                self.res.stats["repeat_queries"] += 1
            self._seen.add(k)

        if op == "add":
            cs_t = [T(t) for t in step["cs"]]
            cs = [build(t) for t in cs_t]
            arg = cs if (len(cs) != 1 or step.get("as_list")) else cs[0]
            st_, _ = self._call(i, step, lambda: s.add(arg), allow_unsat=False)
            if st_ == "fail":
                return
            if st_ != "ok":
                # the solver gave up inside add(): which of the constraints it holds now is unknown, nothing later can be judged
                self.abandon = True
                return
            had = bool(lv.M)
            lv.M = [env for env in lv.M if all(ev(t, env) for t in cs_t)]
            lv.added.extend(cs_t)
            self.res.stats["adds"] += 1
            if had and not lv.M:
                self.res.stats["unsat_reached"] += 1
            return
        if op in ("simplify", "downsize"):
            self.res.stats["maint"] += 1
            self._call(i, step, getattr(s, op), allow_unsat=False)
            return
        if op == "branch":
            if len(self.live) >= self.MAX_LIVE:
                return
            st_, b = self._call(i, step, s.branch, allow_unsat=False)
            if st_ == "ok":
                self.live.append(Live(b, list(lv.M), list(lv.added)))
                self.res.stats["branches"] += 1
            return

        self.res.stats["queries"] += 1
        M = [env for env in lv.M if all(ev(t, env) for t in extras_t)]
        nonempty = bool(M)

        if op == "sat":
            st_, r = self._call(i, step, lambda: s.satisfiable(extra_constraints=extras), allow_unsat=False)
            if st_ == "ok":
                self.res.stats["answers_checked"] += 1
                if bool(r) != nonempty:
                    self.fail("wrong-satisfiable", i, step, {"answer": r, "expected": nonempty, "models": len(M)})
            return

        if op in ("is_true", "is_false"):
            e_t = T(step["e"])
            e = build(e_t)
            fn = s.is_true if op == "is_true" else s.is_false
            st_, r = self._call(i, step, lambda: fn(e, extra_constraints=extras), allow_unsat=True)
            if st_ != "ok" or not nonempty:
                return
            if r is True:
                self.res.stats["answers_checked"] += 1
                want = op == "is_true"
                bad = [env for env in M if bool(ev(e_t, env)) != want]
                if bad:
                    self.fail("claims-truth-that-does-not-hold", i, step, {"answer": r, "counter_model": bad[0]})
            return

        if op == "eval":
            e_t = T(step["e"])
            e = build(e_t)
            n = step["n"]
            V = {ev(e_t, env) for env in M}
            # (an expression claripy folds to a constant while building it -- s == s -- is answered without the solver, also on an
            # unsatisfiable set: the latitude of DESIGN 3.2 for semantically constant queries)
            const = not variables(e_t) or not getattr(e, "symbolic", True)
            st_, r = self._call(i, step, lambda: s.eval(e, n, extra_constraints=extras), allow_unsat=not nonempty)
            if st_ != "ok":
                return
            self.res.stats["answers_checked"] += 1
            if n > len(V) and nonempty:
                self.res.stats["exhausting_evals"] += 1
            self._check_values(i, step, list(r), V, n, nonempty, const, sort_of(e_t))
            return

        if op == "batch":
            es_t = [T(t) for t in step["es"]]
            es = [build(t) for t in es_t]
            n = step["n"]
            st_, r = self._call(i, step, lambda: s.batch_eval(es, n, extra_constraints=extras), allow_unsat=not nonempty)
            if st_ != "ok":
                return
            self.res.stats["answers_checked"] += 1
            rows = {tuple(self._norm(ev(t, env), sort_of(t)) for t in es_t) for env in M}
            try:
                got = [tuple(self._norm(x, sort_of(t)) for x, t in zip(row, es_t, strict=True)) for row in r]
            except Exception:  # noqa: BLE001
                self.fail("batch-non-primitive", i, step, {"answer": repr(r)[:200]})
                return
            if not nonempty:
                if got and any(variables(t) and getattr(x_, "symbolic", True) for t, x_ in zip(es_t, es, strict=True)):
                    self.fail("batch-values-on-unsat", i, step, {"answer": got[:5]})
                return
            if len(set(got)) != len(got):
                self.fail("batch-duplicates", i, step, {"answer": got[:8]})
                return
            bad = [g for g in got if g not in rows]
            if bad:
                self.fail("batch-infeasible-tuple", i, step, {"infeasible": bad[:4], "n_feasible": len(rows)})
                return
            if len(got) != min(n, len(rows)):
                self.fail("batch-wrong-count", i, step, {"got": len(got), "expected": min(n, len(rows))})
            return

        if op in ("min", "max"):
            e_t = T(step["e"])
            e = build(e_t)
            signed = bool(step.get("signed"))
            fn = s.min if op == "min" else s.max
            st_, r = self._call(i, step, lambda: fn(e, extra_constraints=extras, signed=signed), allow_unsat=not nonempty)
            if st_ != "ok":
                return
            self.res.stats["answers_checked"] += 1
            if not nonempty:
                if variables(e_t) and getattr(e, "symbolic", True):
                    self.fail("extremum-on-unsat", i, step, {"answer": r})
                return
            key = (lambda v: v - (1 << 64) if v >> 63 else v) if signed else (lambda v: v)
            vs = sorted({ev(e_t, env) for env in M})
            want = min(vs, key=key) if op == "min" else max(vs, key=key)
            if (int(r) & M64) != want:
                self.fail("wrong-extremum", i, step, {"answer": r, "expected": want, "signed": signed, "n_values": len(vs)})
            return

        if op == "solution":
            e_t = T(step["e"])
            e = build(e_t)
            v = step["v"]
            srt = sort_of(e_t)
            feas = any(ev(e_t, env) == (v if srt == "str" else (bool(v) if srt == "bool" else v & M64)) for env in M)
            arg = claripy.StringV(v) if (srt == "str" and step.get("v_as_ast")) else v
            st_, r = self._call(i, step, lambda: s.solution(e, arg, extra_constraints=extras), allow_unsat=not nonempty)
            if st_ != "ok":
                return
            self.res.stats["answers_checked"] += 1
            if not nonempty:
                if r and variables(e_t) and getattr(e, "symbolic", True):
                    self.fail("solution-true-on-unsat", i, step, {"answer": r})
                return
            if bool(r) != feas:
                self.fail("wrong-solution", i, step, {"answer": r, "expected": feas})
            return
        raise ValueError(op)

    @staticmethod
    def _norm(x, srt):
        if srt == "str":
            if not isinstance(x, str):
                raise TypeError(type(x).__name__)
            return x
        if srt == "bool":
            if not isinstance(x, bool):
                raise TypeError(type(x).__name__)
            return x
        if isinstance(x, bool) or not isinstance(x, int):
            raise TypeError(type(x).__name__)
        return x & M64

    def _check_values(self, i, step, r, V, n, nonempty, const, srt):
        try:
            got = [self._norm(x, srt) for x in r]
        except TypeError:
            self.fail("eval-wrong-type", i, step, {"answer": repr(r)[:200]})
            return
        if not nonempty:
            if got and not const:
                self.fail("values-on-unsat", i, step, {"answer": got[:8]})
            return
        if len(set(got)) != len(got):
            self.fail("eval-duplicates", i, step, {"answer": got[:16]})
            return
        bad = [g for g in got if g not in V]
        if bad:
            self.fail("eval-infeasible-value", i, step, {"infeasible": bad[:8], "answer": got[:16], "n_feasible": len(V)})
            return
        if len(got) != min(n, len(V)):
            self.fail("eval-wrong-count", i, step, {"got": len(got), "expected": min(n, len(V)), "answer": got[:16]})


# ------------------------------------------------------------------ generators

POOL = ["", "a", "b", "ab", "ba", "abc", "aab", "0", "7", "12", "007", "a.b", ".*", "\x00", "a\x00b", "\\", "\\u{61}", "é", "€a", "\n", "-5",
        "\U0001f600", "a b", "[a]", "\xff", "\ufeffa", "\ufeff"]


def _sv(n):
    return ("svar", n)


def _ic(v):
    return ("const", v & M64, 64)


@st.composite
def str_exprs(draw, names, lits):
    x = _sv(draw(st.sampled_from(names)))
    k = draw(st.integers(0, 7))
    lit = ("sconst", draw(st.sampled_from(lits)))
    if k <= 2:
        return x
    if k == 3:
        return ("sconcat", x, lit) if draw(st.booleans()) else ("sconcat", lit, x)
    if k == 4:
        return ("sconcat", x, _sv(draw(st.sampled_from(names))))
    if k == 5:
        return ("substr", x, _ic(draw(st.sampled_from((0, 1, 2)))), _ic(draw(st.sampled_from((1, 2, 5, M64)))))
    if k == 6:
        return ("sreplace", x, lit, ("sconst", draw(st.sampled_from(lits))))
    return ("from_int", ("slen", x))


@st.composite
def int_exprs(draw, names, lits):
    k = draw(st.integers(0, 4))
    x = draw(str_exprs(names, lits))
    if k <= 1:
        return ("slen", x)
    if k == 2:
        return ("indexof", x, ("sconst", draw(st.sampled_from(lits))), _ic(draw(st.sampled_from((0, 0, 1, 2, 1 << 62, M64)))))
    if k == 3:
        return ("to_int", x)
    return ("slen", ("sconcat", x, _sv(draw(st.sampled_from(names)))))


@st.composite
def bool_atoms(draw, names, lits):
    k = draw(st.integers(0, 9))
    x = draw(str_exprs(names, lits))
    lit = ("sconst", draw(st.sampled_from(lits)))
    if k == 0:
        return ("seq", x, lit)
    if k == 1:
        return ("sne", x, lit)
    if k == 2:
        return ("contains", x, lit if draw(st.booleans()) else _sv(draw(st.sampled_from(names))))
    if k == 3:
        return ("prefixof", lit if draw(st.booleans()) else _sv(draw(st.sampled_from(names))), x)
    if k == 4:
        return ("suffixof", lit if draw(st.booleans()) else _sv(draw(st.sampled_from(names))), x)
    if k == 5:
        return ("seq", x, draw(str_exprs(names, lits)))
    if k == 6:
        return ("eq", draw(int_exprs(names, lits)), _ic(draw(st.sampled_from((0, 1, 2, 3, 7, 12, M64)))))
    if k == 7:
        return (draw(st.sampled_from(("ult", "ule"))), draw(int_exprs(names, lits)), _ic(draw(st.sampled_from((1, 2, 3, 4)))))
    if k == 8:
        return (draw(st.sampled_from(("ult", "ule", "eq"))), draw(int_exprs(names, lits)), draw(int_exprs(names, lits)))
    return ("sne", x, draw(str_exprs(names, lits)))


@st.composite
def constraints(draw, names, lits):
    k = draw(st.integers(0, 5))
    a = draw(bool_atoms(names, lits))
    if k <= 2:
        return a
    if k == 3:
        return ("not", a)
    b = draw(bool_atoms(names, lits))
    return ("or", a, b) if k == 4 else ("and", a, ("not", b))


@st.composite
def steps(draw, names, lits, branch=True):
    k = draw(st.integers(0, 19))
    s_ = draw(st.integers(0, 3))
    extra = [draw(constraints(names, lits))] if draw(st.integers(0, 4)) == 0 else []
    if k <= 3:
        return {"op": "add", "s": s_, "cs": [draw(constraints(names, lits)) for _ in range(draw(st.integers(1, 2)))], "as_list": draw(st.booleans())}
    if k <= 5:
        return {"op": "sat", "s": s_, "extra": extra}
    if k <= 9:
        srt = draw(st.integers(0, 3))
        e = draw(str_exprs(names, lits)) if srt <= 1 else draw(int_exprs(names, lits)) if srt == 2 else draw(bool_atoms(names, lits))
        return {"op": "eval", "s": s_, "e": e, "n": draw(st.sampled_from((1, 2, 3, 10, 100))), "extra": extra}
    if k == 10:
        es = [draw(str_exprs(names, lits)), draw(st.one_of(int_exprs(names, lits), str_exprs(names, lits)))]
        return {"op": "batch", "s": s_, "es": es, "n": draw(st.sampled_from((1, 2, 5, 100))), "extra": extra}
    if k <= 12:
        return {"op": draw(st.sampled_from(("min", "max"))), "s": s_, "e": draw(int_exprs(names, lits)), "signed": draw(st.booleans()), "extra": extra}
    if k <= 14:
        srt = draw(st.integers(0, 2))
        if srt <= 1:
            e = draw(str_exprs(names, lits))
            v = draw(st.sampled_from(lits + POOL[:6]))
            return {"op": "solution", "s": s_, "e": e, "v": v, "v_as_ast": draw(st.booleans()), "extra": extra}
        return {"op": "solution", "s": s_, "e": draw(int_exprs(names, lits)), "v": draw(st.sampled_from((0, 1, 2, 3, 7, 12, M64))), "extra": extra}
    if k <= 16:
        return {"op": draw(st.sampled_from(("is_true", "is_false"))), "s": s_, "e": draw(constraints(names, lits)), "extra": extra}
    if k == 17 and branch:
        return {"op": "branch", "s": s_}
    if k == 18:
        return {"op": draw(st.sampled_from(("simplify", "downsize"))), "s": s_}
    return {"op": "eval", "s": s_, "e": _sv(draw(st.sampled_from(names))), "n": draw(st.sampled_from((1, 2, 10))), "extra": extra}


@st.composite
def cases(draw, max_steps=14, branch=True):
    nvars = draw(st.sampled_from((1, 2, 2)))
    names = list(VARS[:nvars])
    doms = {}
    for n in names:
        size = draw(st.integers(2, 6 if nvars == 2 else 9))
        doms[n] = sorted(set(draw(st.lists(st.sampled_from(POOL), min_size=size, max_size=size))))
    lits = sorted({d for v in doms.values() for d in v} | {"a", ""})
    # fragments of the domain strings make contains / prefix / indexof discriminate between members
    frags = sorted({d[:1] for d in lits if d} | {d[-1:] for d in lits if d})
    lits = sorted(set(lits) | set(frags))
    # keep most histories satisfiable: a drawn constraint that would leave no model (judged as if every add went to one
    # solver, which under-counts the models of each branch) is usually redrawn, up to three times
    envs = [dict(zip(names, combo, strict=True)) for combo in itertools.product(*[doms[n] for n in names])]
    hist = []
    for _ in range(draw(st.integers(2, max_steps))):
        stp = draw(steps(names, lits, branch))
        if stp["op"] == "add":
            cs = []
            for c in stp["cs"]:
                c = T(c)
                left = [e for e in envs if ev(c, e)]
                tries = 0
                while not left and tries < 3 and draw(st.integers(0, 5)):
                    c = T(draw(constraints(names, lits)))  # negating instead makes Z3's sequence solver overrun far more often
                    left = [e for e in envs if ev(c, e)]
                    tries += 1
                envs = left or envs
                cs.append(c)
            stp = {**stp, "cs": cs}
        hist.append(stp)
    return {"domains": doms, "history": hist}


def run_case(frontend, case, stop_on_fail=True):
    return StrMachine(frontend).run(case, stop_on_fail)


def shrink_case(frontend, case, fp, deadline, is_known=None):
    """Greedy: drop steps, drop domain members, drop extras."""
    import time

    def still(c):
        try:
            res = run_case(frontend, c)
        except Exception:  # noqa: BLE001
            return None
        for f, o in res.fails:
            if f == fp and (is_known is None or not is_known(c, f, o)):
                return o
        return None

    best, obs = case, still(case)
    if obs is None:
        return case, None
    changed = True
    while changed and time.time() < deadline:
        changed = False
        h = best["history"]
        for i in range(len(h) - 1, -1, -1):
            c = {**best, "history": h[:i] + h[i + 1 :]}
            o = still(c)
            if o is not None:
                best, obs, changed = c, o, True
                break
        if changed:
            continue
        for n, d in best["domains"].items():
            if len(d) > 1:
                for j in range(len(d)):
                    c = {**best, "domains": {**best["domains"], n: d[:j] + d[j + 1 :]}}
                    o = still(c)
                    if o is not None:
                        best, obs, changed = c, o, True
                        break
            if changed:
                break
        if changed:
            continue
        for i, s_ in enumerate(best["history"]):
            if s_.get("extra"):
                c = {**best, "history": h[:i] + [{**s_, "extra": []}] + h[i + 1 :]}
                o = still(c)
                if o is not None:
                    best, obs, changed = c, o, True
                    break
    return best, obs
