"""Concretisation of abstract values (DESIGN 3.3) and enumerators of strided intervals.

gamma(<n> s[lb, ub]) is computed from the four public attributes only:
  empty            -> {}
  s == 0           -> {lb}
  otherwise        -> {(lb + k*s) mod 2^n | 0 <= k <= ((ub - lb) mod 2^n) div s}
Sets of n-bit values are held as Python int bit masks (bit v set <=> v is a member) for small widths.
"""

from __future__ import annotations

import functools

from claripy.backends.backend_vsa.strided_interval import StridedInterval

_MEMO = {}


def mask_of(bits, stride, lb, ub, empty=False):
    if empty:
        return 0
    key = (bits, stride, lb, ub)
    m = _MEMO.get(key)
    if m is not None:
        return m
    mod = 1 << bits
    lb %= mod
    ub %= mod
    if stride == 0:
        m = 1 << lb
    else:
        d = (ub - lb) % mod
        m = 0
        v = lb
        for _ in range(d // stride + 1):
            m |= 1 << v
            v = (v + stride) % mod
    if len(_MEMO) < 2_000_000:
        _MEMO[key] = m
    return m


def bswap(v, bits):
    out = 0
    for _ in range(bits // 8):
        out = (out << 8) | (v & 0xFF)
        v >>= 8
    return out


def gamma_mask(si):
    """Member set of a StridedInterval as a bit mask (only for widths where 2^bits is small).  An interval flagged as
    reversed denotes the byte-swapped images of the members of the interval as written (delayed reversal)."""
    if si.is_empty:
        return 0
    m = mask_of(si.bits, si.stride, si.lower_bound, si.upper_bound)
    if getattr(si, "_reversed", False) and si.bits % 8 == 0 and si.bits > 8:
        out = 0
        for v in members(m):
            out |= 1 << bswap(v, si.bits)
        return out
    return m


def members(mask):
    out = []
    v = 0
    while mask:
        if mask & 1:
            out.append(v)
        mask >>= 1
        v += 1
    return out


def contains(si, v):
    """Closed-form membership for wide intervals."""
    if si.is_empty:
        return False
    mod = 1 << si.bits
    v %= mod
    if getattr(si, "_reversed", False) and si.bits % 8 == 0 and si.bits > 8:
        v = bswap(v, si.bits)  # delayed reversal: v is a member iff its byte-swapped image is in the interval as written
    lb, ub, s = si.lower_bound % mod, si.upper_bound % mod, si.stride
    if s == 0:
        return v == lb
    d = (ub - lb) % mod
    off = (v - lb) % mod
    return off <= d and off % s == 0


def cardinality(si):
    if si.is_empty:
        return 0
    if si.stride == 0:
        return 1
    return ((si.upper_bound - si.lower_bound) % (1 << si.bits)) // si.stride + 1


def describe(si):
    if si.is_empty:
        return f"<{si.bits}>empty"
    return f"<{si.bits}>{si.stride}[{si.lower_bound},{si.upper_bound}]" + ("R" if getattr(si, "_reversed", False) else "")


def make(bits, t):
    """t = (stride, lb, ub) | "empty" """
    if t == "empty":
        return StridedInterval.empty(bits)
    s, lb, ub = t
    return StridedInterval(bits=bits, stride=s, lower_bound=lb, upper_bound=ub)


@functools.lru_cache(maxsize=None)
def canonical(bits):
    """Every canonical strided interval of the width: stride 0 iff lb == ub, stride divides (ub - lb) mod 2^n; as the
    (stride, lb, ub) the constructor normalises them to (so TOP appears once).  4 / 24 / 136 / 736 forms at widths 1-4."""
    mod = 1 << bits
    seen = set()
    out = []
    for lb in range(mod):
        for ub in range(mod):
            d = (ub - lb) % mod
            strides = [0] if d == 0 else [s for s in range(1, d + 1) if d % s == 0]
            for s in strides:
                si = StridedInterval(bits=bits, stride=s, lower_bound=lb, upper_bound=ub)
                key = (si.stride, si.lower_bound, si.upper_bound)
                if key not in seen:
                    seen.add(key)
                    out.append(key)
    return tuple(out)


@functools.lru_cache(maxsize=None)
def off_lattice(bits):
    """Audit class: upper bound not on the stride lattice (writable by a caller, meaning undocumented)."""
    mod = 1 << bits
    out = []
    for lb in range(mod):
        for ub in range(mod):
            d = (ub - lb) % mod
            for s in range(2, d + 1):
                if d % s != 0:
                    out.append((s, lb, ub))
    return tuple(out)


def classify(bits, t):
    """Geometric class of an interval for evidence histograms."""
    if t == "empty":
        return "empty"
    s, lb, ub = t
    mod = 1 << bits
    if s == 0:
        return "singleton"
    if s == 1 and (ub + 1) % mod == lb:
        return "top"
    tags = []
    if lb > ub:
        tags.append("wraps-south")
    half = mod >> 1
    d = (ub - lb) % mod
    # straddles the north pole (0111.. -> 1000..) if half-1 and half are both within [lb, lb+d]
    if ((half - 1 - lb) % mod) < d and ((half - lb) % mod) <= d:
        tags.append("straddles-north")
    tags.append("stride1" if s == 1 else "pow2-stride" if s & (s - 1) == 0 else "odd-stride" if s % 2 else "even-stride")
    return "+".join(tags)
