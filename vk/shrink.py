"""Deterministic shrinkers working on case values themselves (IR trees, step lists)."""

from __future__ import annotations

import time

from . import ir


def _replace_at(t, path, new):
    if not path:
        return new
    ch = list(ir.children(t))
    ch[path[0]] = _replace_at(ch[path[0]], path[1:], new)
    return ir.with_children(t, ch)


def _paths(t, prefix=()):
    yield prefix, t
    for i, c in enumerate(ir.children(t)):
        yield from _paths(c, (*prefix, i))


def _same_sort(a, b):
    if ir.is_bool(a) != ir.is_bool(b):
        return False
    if ir.is_bool(a):
        return True
    try:
        return ir.width(a) == ir.width(b)
    except ValueError:
        return False


def tree_candidates(t):
    """Smaller variants of an IR (bv/bool) tree, most aggressive first."""
    # whole-tree hoists: any sub-tree of the same sort
    for _path, sub in sorted(_paths(t), key=lambda ps: ir.size(ps[1])):
        if sub is not t and _same_sort(sub, t) and ir.size(sub) < ir.size(t):
            yield sub
    for path, sub in _paths(t):
        if not path:
            continue
        # hoist a child of the same sort into this position
        for c in ir.children(sub):
            if _same_sort(c, sub):
                yield _replace_at(t, path, c)
        # replace by a leaf
        if ir.children(sub):
            if ir.is_bool(sub):
                yield _replace_at(t, path, ("bconst", False))
                yield _replace_at(t, path, ("bconst", True))
                yield _replace_at(t, path, ("bvar", "p0"))
            else:
                try:
                    w = ir.width(sub)
                except ValueError:
                    continue
                yield _replace_at(t, path, ("var", f"v0_{w}", w))
                yield _replace_at(t, path, ("const", 0, w))
        elif sub[0] == "const":
            v, w = sub[1], sub[2]
            for nv in (0, 1, (1 << w) - 1, v >> 1, v & (v - 1), v - 1):
                nv &= (1 << w) - 1
                if nv != v and nv < v:
                    yield _replace_at(t, path, ("const", nv, w))
        elif sub[0] == "var":
            w = sub[2]
            if sub[1] != f"v0_{w}":
                yield _replace_at(t, path, ("var", f"v0_{w}", w))
        elif sub[0] == "bvar" and sub[1] != "p0":
            yield _replace_at(t, path, ("bvar", "p0"))


def greedy(case, candidates, still_fails, deadline, max_rounds=200):
    """Generic greedy descent: candidates(case) yields smaller cases; still_fails(case) -> obs or None."""
    cur = case
    obs = None
    for _ in range(max_rounds):
        improved = False
        for cand in candidates(cur):
            if time.time() > deadline:
                return cur, obs
            try:
                o = still_fails(cand)
            except Exception:  # noqa: BLE001 - an ill-formed candidate is simply not accepted
                o = None
            if o is not None:
                cur, obs, improved = cand, o, True
                break
        if not improved:
            break
    return cur, obs


def ddmin_list(items, still_fails, deadline):
    """Classic ddmin on a list; still_fails(list) -> obs or None."""
    n = 2
    cur = list(items)
    obs = None
    while len(cur) >= 2 and time.time() < deadline:
        chunk = max(1, len(cur) // n)
        reduced = False
        for i in range(0, len(cur), chunk):
            cand = cur[:i] + cur[i + chunk :]
            if not cand:
                continue
            try:
                o = still_fails(cand)
            except Exception:  # noqa: BLE001
                o = None
            if o is not None:
                cur, obs = cand, o
                n = max(n - 1, 2)
                reduced = True
                break
            if time.time() > deadline:
                break
        if not reduced:
            if chunk == 1:
                break
            n = min(len(cur), n * 2)
    return cur, obs
