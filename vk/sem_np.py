"""Oracle 1v: numpy-vectorised semantics over ALL assignments at once (widths <= 16), for brute-force
model sets.  Two walkers share the op library: `ev` for IR trees, `ev_ast` for claripy ASTs."""

from __future__ import annotations

import numpy as np

from . import ir

U = np.uint64


def _m(n):
    return U((1 << n) - 1)


def _signed(a, n):
    """int64 signed interpretation."""
    a = a.astype(np.int64)
    return np.where(a >> np.int64(n - 1) != 0, a - np.int64(1 << n), a)


def binop(op, a, b, n):
    m = _m(n)
    if op == "bvadd":
        return (a + b) & m
    if op == "bvsub":
        return (a - b) & m
    if op == "bvmul":
        return (a * b) & m
    if op == "bvand":
        return a & b
    if op == "bvor":
        return a | b
    if op == "bvxor":
        return a ^ b
    if op == "bvudiv":
        safe = np.where(b == 0, U(1), b)
        return np.where(b == 0, m, a // safe)
    if op == "bvurem":
        safe = np.where(b == 0, U(1), b)
        return np.where(b == 0, a, a % safe)
    if op in ("bvsdiv", "bvsrem"):
        sa, sb = _signed(a, n), _signed(b, n)
        safe = np.where(sb == 0, np.int64(1), sb)
        q = np.abs(sa) // np.abs(safe)
        q = np.where((sa < 0) != (sb < 0), -q, q)
        if op == "bvsdiv":
            r = np.where(sb == 0, np.where(sa >= 0, np.int64(-1), np.int64(1)), q)
        else:
            rem = np.abs(sa) % np.abs(safe)
            rem = np.where(sa < 0, -rem, rem)
            r = np.where(sb == 0, sa, rem)
        return r.astype(np.int64).astype(U) & m
    if op == "bvshl":
        sh = np.minimum(b, U(63))
        return np.where(b >= U(n), U(0), (a << sh) & m)
    if op == "bvlshr":
        sh = np.minimum(b, U(63))
        return np.where(b >= U(n), U(0), a >> sh)
    if op == "bvashr":
        sa = _signed(a, n)
        sh = np.minimum(b, U(n)).astype(np.int64)
        return (sa >> sh).astype(U) & m
    if op in ("rotl", "rotr"):
        k = b % U(n)
        kk = (U(n) - k) % U(n)
        if op == "rotl":
            return ((a << k) | (a >> kk)) & m if True else None
        return ((a >> k) | (a << kk)) & m
    raise ValueError(op)


def cmp(op, a, b, n):
    if op == "eq":
        return a == b
    if op == "ne":
        return a != b
    if op == "ult":
        return a < b
    if op == "ule":
        return a <= b
    if op == "ugt":
        return a > b
    if op == "uge":
        return a >= b
    sa, sb = _signed(a, n), _signed(b, n)
    return {"slt": sa < sb, "sle": sa <= sb, "sgt": sa > sb, "sge": sa >= sb}[op]


def _bswap(a, n):
    out = np.zeros_like(a)
    for i in range(n // 8):
        out = (out << U(8)) | ((a >> U(8 * i)) & U(0xFF))
    return out


class Space:
    """All assignments to a fixed list of variables [(name, width)], width 0 = Boolean."""

    def __init__(self, variables):
        self.variables = list(variables)
        self.bits = sum(max(1, w) for _, w in self.variables)
        self.size = 1 << self.bits
        idx = np.arange(self.size, dtype=U)
        self.env = {}
        off = 0
        self.offsets = {}
        for name, w in self.variables:
            ww = max(1, w)
            v = (idx >> U(off)) & _m(ww)
            self.env[name] = v.astype(bool) if w == 0 else v
            self.offsets[name] = (off, ww)
            off += ww

    def full(self):
        return np.ones(self.size, dtype=bool)

    def assignment(self, index):
        out = {}
        for name, w in self.variables:
            off, ww = self.offsets[name]
            v = (int(index) >> off) & ((1 << ww) - 1)
            out[name] = bool(v) if w == 0 else v
        return out

    def const(self, v):
        return np.full(self.size, v, dtype=U)

    def bconst(self, b):
        return np.full(self.size, bool(b), dtype=bool)

    # --- IR trees
    def ev(self, t):
        op = t[0]
        if op == "var":
            return self.env[t[1]]
        if op == "bvar":
            return self.env[t[1]]
        if op == "const":
            return self.const(t[1] & ((1 << t[2]) - 1))
        if op == "bconst":
            return self.bconst(t[1])
        if op == "anno":
            return self.ev(t[2])
        if op in ir.BV_BIN:
            return binop(op, self.ev(t[1]), self.ev(t[2]), ir.width(t[1]))
        if op == "bvneg":
            n = ir.width(t[1])
            return (U(0) - self.ev(t[1])) & _m(n)
        if op == "bvnot":
            return self.ev(t[1]) ^ _m(ir.width(t[1]))
        if op == "bswap":
            return _bswap(self.ev(t[1]), ir.width(t[1]))
        if op == "concat":
            v = self.const(0)
            for c in t[1:]:
                v = (v << U(ir.width(c))) | self.ev(c)
            return v
        if op == "extract":
            return (self.ev(t[3]) >> U(t[2])) & _m(t[1] - t[2] + 1)
        if op == "zext":
            return self.ev(t[2])
        if op == "sext":
            n = ir.width(t[2])
            return _signed(self.ev(t[2]), n).astype(U) & _m(n + t[1])
        if op in ("ite", "bite"):
            return np.where(self.ev(t[1]), self.ev(t[2]), self.ev(t[3]))
        if op in ir.BV_CMP:
            return cmp(op, self.ev(t[1]), self.ev(t[2]), ir.width(t[1]))
        if op == "and":
            r = self.ev(t[1])
            for c in t[2:]:
                r = r & self.ev(c)
            return r
        if op == "or":
            r = self.ev(t[1])
            for c in t[2:]:
                r = r | self.ev(c)
            return r
        if op == "not":
            return ~self.ev(t[1])
        if op == "beq":
            return self.ev(t[1]) == self.ev(t[2])
        if op == "bne":
            return self.ev(t[1]) != self.ev(t[2])
        raise ValueError(f"sem_np.ev: {op}")

    # --- claripy ASTs (by op name; reads only .op/.args/.length)
    def ev_ast(self, a, memo=None):
        if memo is None:
            memo = {}
        k = id(a)
        if k in memo:
            return memo[k]
        r = self._ev_ast(a, memo)
        memo[k] = r
        return r

    _BIN = {"__floordiv__": "bvudiv", "__mod__": "bvurem", "SDiv": "bvsdiv", "SMod": "bvsrem", "__lshift__": "bvshl",
            "__rshift__": "bvashr", "LShR": "bvlshr", "RotateLeft": "rotl", "RotateRight": "rotr"}
    _NARY = {"__add__": "bvadd", "__mul__": "bvmul", "__and__": "bvand", "__or__": "bvor", "__xor__": "bvxor", "__sub__": "bvsub"}
    _CMP = {"__eq__": "eq", "__ne__": "ne", "ULT": "ult", "ULE": "ule", "UGT": "ugt", "UGE": "uge", "SLT": "slt", "SLE": "sle",
            "SGT": "sgt", "SGE": "sge"}

    def _ev_ast(self, a, memo):
        op, args = a.op, a.args
        if op == "BVV":
            return self.const(args[0] & ((1 << args[1]) - 1))
        if op == "BVS":
            return self.env[args[0]]
        if op == "BoolV":
            return self.bconst(args[0])
        if op == "BoolS":
            return self.env[args[0]]
        if op in self._NARY:
            vals = [self.ev_ast(x, memo) for x in args]
            acc = vals[0]
            for v in vals[1:]:
                acc = binop(self._NARY[op], acc, v, a.length)
            return acc
        if op in self._BIN:
            return binop(self._BIN[op], self.ev_ast(args[0], memo), self.ev_ast(args[1], memo), a.length)
        if op == "__neg__":
            return (U(0) - self.ev_ast(args[0], memo)) & _m(a.length)
        if op == "__invert__":
            return self.ev_ast(args[0], memo) ^ _m(a.length)
        if op == "Reverse":
            return _bswap(self.ev_ast(args[0], memo), args[0].length)
        if op == "Concat":
            v = self.const(0)
            for x in args:
                v = (v << U(x.length)) | self.ev_ast(x, memo)
            return v
        if op == "Extract":
            return (self.ev_ast(args[2], memo) >> U(args[1])) & _m(args[0] - args[1] + 1)
        if op == "ZeroExt":
            return self.ev_ast(args[1], memo)
        if op == "SignExt":
            n = args[1].length
            return _signed(self.ev_ast(args[1], memo), n).astype(U) & _m(n + args[0])
        if op == "If":
            return np.where(self.ev_ast(args[0], memo), self.ev_ast(args[1], memo), self.ev_ast(args[2], memo))
        if op in self._CMP:
            x, y = self.ev_ast(args[0], memo), self.ev_ast(args[1], memo)
            if x.dtype == bool or y.dtype == bool:
                return (x == y) if op == "__eq__" else (x != y)
            return cmp(self._CMP[op], x, y, args[0].length)
        if op == "And":
            r = self.ev_ast(args[0], memo)
            for x in args[1:]:
                r = r & self.ev_ast(x, memo)
            return r
        if op == "Or":
            r = self.ev_ast(args[0], memo)
            for x in args[1:]:
                r = r | self.ev_ast(x, memo)
            return r
        if op == "Not":
            return ~self.ev_ast(args[0], memo)
        raise ValueError(f"sem_np.ev_ast: {op}")
