"""String IR, SMT-LIB reference semantics (Python + independently built Z3 term), claripy builder,
generators.  Used by C03 (meaning), C04 (crash-freedom), C09, C18, C26.

IR:  strings: ("sconst", text) ("svar", name) ("sconcat", a, b, ...) ("substr", s, i, n)
              ("sreplace", s, t, r) ("from_int", bv)
     bv64:    ("const", v, 64) ("slen", s) ("indexof", s, t, i) ("to_int", s)
     bool:    ("contains", s, t) ("prefixof", p, s) ("suffixof", p, s) ("seq", a, b) ("sne", a, b)
"""

from __future__ import annotations

import claripy
import z3
from hypothesis import strategies as st

from . import exprcheck

M64 = (1 << 64) - 1
STR_OPS = ("sconst", "svar", "sconcat", "substr", "sreplace", "from_int")
INT_OPS = ("const", "slen", "indexof", "to_int")
BOOL_OPS = ("contains", "prefixof", "suffixof", "seq", "sne")  # plus ("eq", int, int), only written by C26


def T(x):
    if isinstance(x, (list, tuple)):
        return tuple(T(y) for y in x)
    return x


def sort_of(t):
    return "str" if t[0] in STR_OPS else "int" if t[0] in INT_OPS else "bool"


def children(t):
    if t[0] in ("sconst", "svar", "const"):
        return ()
    return tuple(t[1:])


def n_ops(t):
    return (0 if t[0] in ("sconst", "svar", "const") else 1) + sum(n_ops(c) for c in children(t))


def subtrees(t):
    yield t
    for c in children(t):
        yield from subtrees(c)


def svars(t):
    return sorted({s[1] for s in subtrees(t) if s[0] == "svar"})


def pretty(t):
    if t[0] == "sconst":
        return repr(t[1])
    if t[0] == "svar":
        return t[1]
    if t[0] == "const":
        return f"{t[1]:#x}"
    return t[0] + "(" + ",".join(pretty(c) for c in t[1:]) + ")"


# ------------------------------------------------------------------ oracle 1: Python SMT-LIB semantics


def ev(t, env=None):
    op = t[0]
    if op == "sconst":
        return t[1]
    if op == "svar":
        return env[t[1]]
    if op == "const":
        return t[1] & M64
    if op == "sconcat":
        return "".join(ev(c, env) for c in t[1:])
    if op == "substr":
        s, i, n = ev(t[1], env), ev(t[2], env), ev(t[3], env)
        if 0 <= i < len(s) and n > 0:
            return s[i : i + min(n, len(s) - i)]
        return ""
    if op == "sreplace":
        s, a, b = ev(t[1], env), ev(t[2], env), ev(t[3], env)
        if a == "":
            return b + s
        k = s.find(a)
        return s if k < 0 else s[:k] + b + s[k + len(a) :]
    if op == "from_int":
        return str(ev(t[1], env))  # bv2int is unsigned, hence never negative
    if op == "slen":
        return len(ev(t[1], env)) & M64
    if op == "indexof":
        s, a, i = ev(t[1], env), ev(t[2], env), ev(t[3], env)
        if i > len(s):
            return M64
        if a == "":
            return i
        k = s.find(a, i)
        return k & M64
    if op == "to_int":
        s = ev(t[1], env)
        if s and all(c in "0123456789" for c in s):
            return int(s) & M64
        return M64
    if op == "contains":
        return ev(t[2], env) in ev(t[1], env)
    if op == "prefixof":
        return ev(t[2], env).startswith(ev(t[1], env))
    if op == "suffixof":
        return ev(t[2], env).endswith(ev(t[1], env))
    if op == "seq":
        return ev(t[1], env) == ev(t[2], env)
    if op == "sne":
        return ev(t[1], env) != ev(t[2], env)
    raise ValueError(op)


# ------------------------------------------------------------------ oracle 2: Z3 term from code points


def lit(s):
    if not s:
        return z3.Empty(z3.StringSort())
    parts = [z3.Unit(z3.CharVal(ord(c))) for c in s]
    return parts[0] if len(parts) == 1 else z3.Concat(*parts)


def z3term(t):
    op = t[0]
    if op == "sconst":
        return lit(t[1])
    if op == "svar":
        return z3.String(t[1])
    if op == "const":
        return z3.BitVecVal(t[1], 64)
    if op == "sconcat":
        parts = [z3term(c) for c in t[1:]]
        return parts[0] if len(parts) == 1 else z3.Concat(*parts)
    if op == "substr":
        return z3.SubString(z3term(t[1]), z3.BV2Int(z3term(t[2])), z3.BV2Int(z3term(t[3])))
    if op == "sreplace":
        return z3.Replace(z3term(t[1]), z3term(t[2]), z3term(t[3]))
    if op == "from_int":
        return z3.IntToStr(z3.BV2Int(z3term(t[1])))
    if op == "slen":
        return z3.Int2BV(z3.Length(z3term(t[1])), 64)
    if op == "indexof":
        return z3.Int2BV(z3.IndexOf(z3term(t[1]), z3term(t[2]), z3.BV2Int(z3term(t[3]))), 64)
    if op == "to_int":
        return z3.Int2BV(z3.StrToInt(z3term(t[1])), 64)
    if op == "contains":
        return z3.Contains(z3term(t[1]), z3term(t[2]))
    if op == "prefixof":
        return z3.PrefixOf(z3term(t[1]), z3term(t[2]))
    if op == "suffixof":
        return z3.SuffixOf(z3term(t[1]), z3term(t[2]))
    if op in ("seq", "eq"):
        return z3term(t[1]) == z3term(t[2])
    if op == "sne":
        return z3term(t[1]) != z3term(t[2])
    raise ValueError(op)


def z3_string_value(term):
    """Python str of a ground Z3 string term via code points (never via the escaped text)."""
    r = z3.simplify(term)
    n = z3.simplify(z3.Length(r))
    if not z3.is_int_value(n):
        raise ValueError(f"not ground: {r}")
    out = []
    for i in range(n.as_long()):
        c = z3.simplify(z3.StrToCode(z3.SubString(r, i, 1)))
        if not z3.is_int_value(c):
            raise ValueError(f"not ground: {r}")
        out.append(chr(c.as_long()))
    return "".join(out)


def z3_value(term):
    r = z3.simplify(term)
    if z3.is_bv_value(r):
        return r.as_long()
    if z3.is_true(r):
        return True
    if z3.is_false(r):
        return False
    if z3.is_seq(r):
        return z3_string_value(r)
    raise ValueError(f"not ground: {r}")


def z3_subst(term, env):
    subs = [(z3.String(k), lit(v)) for k, v in env.items()]
    return z3.substitute(term, *subs) if subs else term


# ------------------------------------------------------------------ claripy builder


def build(t, ch=None):
    if ch is None:
        ch = _Plain()
    op = t[0]
    if op == "sconst":
        return claripy.StringV(t[1])
    if op == "svar":
        return claripy.StringS(t[1], explicit_name=True)
    if op == "const":
        return claripy.BVV(t[1], 64)
    if op == "sconcat":
        parts = [build(c, ch) for c in t[1:]]
        if len(parts) == 2 and ch.pick(2):
            return parts[0] + parts[1]
        return claripy.StrConcat(*parts)
    if op == "substr":
        s = build(t[1], ch)
        i = t[2][1] if t[2][0] == "const" and ch.pick(2) else build(t[2], ch)
        n = t[3][1] if t[3][0] == "const" and ch.pick(2) and not isinstance(i, int) else build(t[3], ch)
        return claripy.StrSubstr(i, n, s)
    if op == "sreplace":
        s, a, b = build(t[1], ch), build(t[2], ch), build(t[3], ch)
        return s.strReplace(a, b) if ch.pick(2) else claripy.StrReplace(s, a, b)
    if op == "from_int":
        return claripy.IntToStr(build(t[1], ch))
    if op == "slen":
        return claripy.StrLen(build(t[1], ch))
    if op == "indexof":
        s, a, i = build(t[1], ch), build(t[2], ch), build(t[3], ch)
        return s.indexOf(a, i) if ch.pick(2) else claripy.StrIndexOf(s, a, i)
    if op == "to_int":
        s = build(t[1], ch)
        return s.toInt() if ch.pick(2) else claripy.StrToInt(s)
    if op == "contains":
        return claripy.StrContains(build(t[1], ch), build(t[2], ch))
    if op == "prefixof":
        return claripy.StrPrefixOf(build(t[1], ch), build(t[2], ch))
    if op == "suffixof":
        return claripy.StrSuffixOf(build(t[1], ch), build(t[2], ch))
    if op in ("seq", "eq"):
        return build(t[1], ch) == build(t[2], ch)
    if op == "sne":
        return build(t[1], ch) != build(t[2], ch)
    raise ValueError(op)


class _Plain:
    def pick(self, n):
        return 0


# ------------------------------------------------------------------ generators

ALPHABET = ["\x00", "\\", ".", "(", ")", "[", "]", "*", "+", "?", "^", "$", "|", "{", "}", "\n", "0", "1", "5", "9", "-",
            "a", "b", "A", "z", " ", "é", "€", "\U0001f600", "\U0002ffff", "\x7f", "\x80", "\xff", "u",
            # code points that codecs treat specially: byte order marks, noncharacters, the ends of the surrogate gap, separators
            "\ufeff", "\ufffe", "\uffff", "\ud7ff", "\ue000", "\u2028", "\x85", "\U00010000"]
SPECIAL_TEXTS = ["", "\\u{48}", "\\u{0}", "\\x41", "\\u0041", "-5", "+5", "007", "12", "18446744073709551616", "a.", "ab", ".*",
                 "(", "a|b", "[a", "\\", "\\\\", "0", "١", "1 ", "٣", "\ufeffab", "\ufeff", "a\ufeff", "\ufffea",
                 # characters str.isdigit() / str.isdecimal() accept although they are not ASCII digits (superscripts, circled, other scripts)
                 "\u00b2", "1\u00b9", "\u2460", "\u0663\u0661", "\uff11\uff12", "\u1369"]


def texts(max_len=6):
    return st.one_of(
        st.sampled_from(SPECIAL_TEXTS),
        st.lists(st.sampled_from(ALPHABET), max_size=max_len).map("".join),
        st.lists(st.sampled_from(["a", "b", ".", "0"]), max_size=max_len).map("".join),
    )


def index_consts():
    return st.sampled_from([0, 1, 2, 3, 5, 6, 7, 1 << 31, (1 << 31) - 1, 1 << 32, 1 << 63, (1 << 63) - 1, M64, M64 - 1]).map(lambda v: ("const", v, 64))


@st.composite
def str_tree(draw, depth, symbolic=False):
    if depth <= 0 or draw(st.integers(0, 9)) < 3:
        if symbolic and draw(st.integers(0, 2)) == 0:
            return ("svar", "s0")
        return ("sconst", draw(texts()))
    k = draw(st.sampled_from(("sconcat", "substr", "sreplace", "from_int", "sconcat", "substr")))
    d = depth - 1
    if k == "sconcat":
        return ("sconcat", *[draw(str_tree(d, symbolic)) for _ in range(draw(st.integers(2, 3)))])
    if k == "substr":
        return ("substr", draw(str_tree(d, symbolic)), draw(int_tree(d, symbolic)), draw(int_tree(d, symbolic)))
    if k == "sreplace":
        return ("sreplace", draw(str_tree(d, symbolic)), draw(str_tree(d, symbolic)), draw(str_tree(d, symbolic)))
    return ("from_int", draw(int_tree(d, symbolic)))


@st.composite
def int_tree(draw, depth, symbolic=False):
    if depth <= 0 or draw(st.integers(0, 9)) < 5:
        return draw(index_consts())
    k = draw(st.sampled_from(("slen", "indexof", "to_int")))
    d = depth - 1
    if k == "slen":
        return ("slen", draw(str_tree(d, symbolic)))
    if k == "indexof":
        return ("indexof", draw(str_tree(d, symbolic)), draw(str_tree(d, symbolic)), draw(int_tree(d, symbolic)))
    return ("to_int", draw(str_tree(d, symbolic)))


@st.composite
def bool_tree(draw, depth, symbolic=False):
    k = draw(st.sampled_from(BOOL_OPS))
    return (k, draw(str_tree(depth - 1, symbolic)), draw(str_tree(depth - 1, symbolic)))


@st.composite
def any_tree(draw, max_depth=3, symbolic=False):
    d = draw(st.integers(1, max_depth))
    s = draw(st.integers(0, 2))
    if s == 0:
        t = draw(str_tree(d, symbolic))
        if t[0] in ("sconst", "svar"):
            t = ("sconcat", t, draw(str_tree(0, symbolic)))
        return t
    if s == 1:
        t = draw(int_tree(d, symbolic))
        if t[0] == "const":
            t = ("slen", draw(str_tree(0, symbolic)))
        return t
    return draw(bool_tree(d, symbolic))


def crash_cases(tier):
    return st.tuples(any_tree(3), st.integers(0, 2**32 - 1)).map(lambda v: {"sort": "str", "tree": v[0], "spell": v[1]})


# ------------------------------------------------------------------ C04 classification


def is_nontrivial(t):
    for s in subtrees(t):
        if s[0] == "sconst" and any(not (c.isascii() and c.isalnum()) for c in s[1]):
            return True
        if s[0] == "const" and s[1] > 16:
            return True
    return False


def classify_crash(case):
    from . import build_claripy

    t = T(case["tree"])
    info = {"classes": [], "nontrivial": n_ops(t) >= 1 and is_nontrivial(t)}
    try:
        build(t, build_claripy.Chooser(case.get("spell", 0)))
    except Exception as e:  # noqa: BLE001 - no string operation has a documented error condition
        return [(exprcheck.exc_fingerprint(e), {"tree": pretty(t), "exc": f"{type(e).__name__}: {str(e)[:200]}"})], info
    info["classes"].append("returned-ast")
    return [], info
