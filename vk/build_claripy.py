"""IR -> claripy expression through public constructors and operators only, in a spelling chosen by a
deterministic chooser derived from an integer that the generator drew (so replay is exact)."""

from __future__ import annotations

import claripy

from . import ir


class Chooser:
    """Deterministic stream of small choices from one integer (splitmix64)."""

    def __init__(self, seed: int):
        self.s = (seed * 0x9E3779B97F4A7C15 + 0x1234567) & 0xFFFFFFFFFFFFFFFF

    def next(self) -> int:
        self.s = (self.s + 0x9E3779B97F4A7C15) & 0xFFFFFFFFFFFFFFFF
        z = self.s
        z = ((z ^ (z >> 30)) * 0xBF58476D1CE4E5B9) & 0xFFFFFFFFFFFFFFFF
        z = ((z ^ (z >> 27)) * 0x94D049BB133111EB) & 0xFFFFFFFFFFFFFFFF
        return z ^ (z >> 31)

    def pick(self, n: int) -> int:
        return self.next() % n if n > 1 else 0


class Plain:
    """Chooser that always takes the canonical spelling."""

    def pick(self, n):
        return 0


_PYOP = {
    "bvadd": lambda a, b: a + b,
    "bvsub": lambda a, b: a - b,
    "bvmul": lambda a, b: a * b,
    "bvudiv": lambda a, b: a // b,
    "bvurem": lambda a, b: a % b,
    "bvand": lambda a, b: a & b,
    "bvor": lambda a, b: a | b,
    "bvxor": lambda a, b: a ^ b,
    "bvshl": lambda a, b: a << b,
    "bvashr": lambda a, b: a >> b,
}
_FUNOP = {
    "bvsdiv": ("SDiv", claripy.SDiv),
    "bvsrem": ("SMod", claripy.SMod),
    "bvlshr": ("LShR", claripy.LShR),
    "rotl": (None, claripy.RotateLeft),
    "rotr": (None, claripy.RotateRight),
}
_CMPFUN = {
    "ult": ("ULT", claripy.ULT, lambda a, b: a < b, "ugt"),
    "ule": ("ULE", claripy.ULE, lambda a, b: a <= b, "uge"),
    "ugt": ("UGT", claripy.UGT, lambda a, b: a > b, "ult"),
    "uge": ("UGE", claripy.UGE, lambda a, b: a >= b, "ule"),
    "slt": ("SLT", claripy.SLT, None, None),
    "sle": ("SLE", claripy.SLE, None, None),
    "sgt": ("SGT", claripy.SGT, None, None),
    "sge": ("SGE", claripy.SGE, None, None),
}


def _as_int(t, ch):
    """A Python-int spelling of a constant leaf (sometimes the negative representative)."""
    v, n = t[1], t[2]
    if ch.pick(4) == 0 and v >> (n - 1):
        return v - (1 << n)
    return v


def build(t, ch=None, tap=None):
    """Returns the claripy AST for IR tree t.  `tap(ast, subtree)` is called for every intermediate result."""
    if ch is None:
        ch = Plain()
    r = _build(t, ch, tap)
    return r


def _leaf(t):
    op = t[0]
    if op == "var":
        return claripy.BVS(t[1], t[2], explicit_name=True)
    if op == "const":
        return claripy.BVV(t[1], t[2])
    if op == "bvar":
        return claripy.BoolS(t[1], explicit_name=True)
    if op == "bconst":
        return claripy.BoolV(bool(t[1]))
    return None


def _build(t, ch, tap):
    r = _build1(t, ch, tap)
    if tap is not None:
        tap(r, t)
    return r


ANNO_FACTORY = None  # set by the property module: spec -> claripy.Annotation


def _build1(t, ch, tap):
    op = t[0]
    if op == "anno":
        return _build(t[2], ch, tap).annotate(ANNO_FACTORY(t[1]))
    lf = _leaf(t)
    if lf is not None:
        if op == "bconst" and ch.pick(2):
            return claripy.true() if t[1] else claripy.false()
        return lf

    if op in _PYOP:
        ta, tb = t[1], t[2]
        f = _PYOP[op]
        k = ch.pick(4)
        if k == 1 and tb[0] == "const" and ta[0] != "const":
            return f(_build(ta, ch, tap), _as_int(tb, ch))
        if k == 2 and ta[0] == "const" and tb[0] != "const":
            return f(_as_int(ta, ch), _build(tb, ch, tap))  # reversed operator
        if k == 3 and op == "bvudiv":
            return _build(ta, ch, tap) / _build(tb, ch, tap)
        return f(_build(ta, ch, tap), _build(tb, ch, tap))
    if op in _FUNOP:
        meth, fn = _FUNOP[op]
        a, b = _build(t[1], ch, tap), _build(t[2], ch, tap)
        k = ch.pick(3)
        if k == 1 and meth is not None:
            return getattr(a, meth)(b)
        if k == 2 and t[2][0] == "const" and t[1][0] != "const":
            return fn(a, t[2][1])
        return fn(a, b)
    if op == "bvneg":
        return -_build(t[1], ch, tap)
    if op == "bvnot":
        return ~_build(t[1], ch, tap)
    if op == "bswap":
        a = _build(t[1], ch, tap)
        return a.reversed if ch.pick(2) else claripy.Reverse(a)
    if op == "concat":
        parts = [_build(c, ch, tap) for c in t[1:]]
        k = ch.pick(3)
        if k == 1:
            return parts[0].concat(*parts[1:]) if len(parts) > 1 else claripy.Concat(*parts)
        if k == 2 and len(parts) > 2:
            acc = parts[0]
            for p in parts[1:]:
                acc = claripy.Concat(acc, p)
            return acc
        return claripy.Concat(*parts)
    if op == "extract":
        hi, lo, a = t[1], t[2], _build(t[3], ch, tap)
        n = ir.width(t[3])
        k = ch.pick(5)
        if k == 1:
            return a[hi:lo]
        if k == 2 and hi == lo:
            return a[hi]
        if k == 3 and lo == 0:
            return a[hi:]
        if k == 4:
            return a[hi - n : lo] if hi - n < 0 else a[hi:lo]
        return claripy.Extract(hi, lo, a)
    if op == "zext":
        a = _build(t[2], ch, tap)
        return a.zero_extend(t[1]) if ch.pick(2) else claripy.ZeroExt(t[1], a)
    if op == "sext":
        a = _build(t[2], ch, tap)
        return a.sign_extend(t[1]) if ch.pick(2) else claripy.SignExt(t[1], a)
    if op in ("ite", "bite"):
        tc, ta, tb = t[1], t[2], t[3]
        c = _build(tc, ch, tap)
        if tc[0] == "bconst" and ch.pick(2):
            c = bool(tc[1])
        k = ch.pick(4)
        if op == "ite":
            if k == 1 and tb[0] == "const" and ta[0] != "const":
                return claripy.If(c, _build(ta, ch, tap), _as_int(tb, ch))
            if k == 2 and ta[0] == "const" and tb[0] != "const":
                return claripy.If(c, _as_int(ta, ch), _build(tb, ch, tap))
        else:
            if k == 1 and tb[0] == "bconst" and ta[0] != "bconst":
                return claripy.If(c, _build(ta, ch, tap), bool(tb[1]))
            if k == 2 and ta[0] == "bconst" and tb[0] != "bconst":
                return claripy.If(c, bool(ta[1]), _build(tb, ch, tap))
        return claripy.If(c, _build(ta, ch, tap), _build(tb, ch, tap))
    if op in ("eq", "ne"):
        ta, tb = t[1], t[2]
        f = (lambda a, b: a == b) if op == "eq" else (lambda a, b: a != b)
        k = ch.pick(3)
        if k == 1 and tb[0] == "const" and ta[0] != "const":
            return f(_build(ta, ch, tap), _as_int(tb, ch))
        if k == 2 and ta[0] == "const" and tb[0] != "const":
            return f(_as_int(ta, ch), _build(tb, ch, tap))
        return f(_build(ta, ch, tap), _build(tb, ch, tap))
    if op in _CMPFUN:
        meth, fn, pyop, _ = _CMPFUN[op]
        ta, tb = t[1], t[2]
        k = ch.pick(5)
        if pyop is not None:
            if k == 1:
                return pyop(_build(ta, ch, tap), _build(tb, ch, tap))
            if k == 2 and tb[0] == "const" and ta[0] != "const":
                return pyop(_build(ta, ch, tap), tb[1])
            if k == 3 and ta[0] == "const" and tb[0] != "const":
                return pyop(ta[1], _build(tb, ch, tap))  # python swaps to the reflected comparison
        a, b = _build(ta, ch, tap), _build(tb, ch, tap)
        if k == 4:
            return getattr(a, meth)(b)
        return fn(a, b)
    if op in ("and", "or"):
        parts = []
        for c in t[1:]:
            if c[0] == "bconst" and ch.pick(3) == 0 and len(t) > 2:
                parts.append(bool(c[1]))
            else:
                parts.append(_build(c, ch, tap))
        fn = claripy.And if op == "and" else claripy.Or
        k = ch.pick(3)
        if k == 1 and len(parts) == 2 and not isinstance(parts[0], bool):
            return (parts[0] & parts[1]) if op == "and" else (parts[0] | parts[1])
        if k == 2 and len(parts) > 2 and not any(isinstance(p, bool) for p in parts):
            acc = parts[0]
            for p in parts[1:]:
                acc = fn(acc, p)
            return acc
        if all(isinstance(p, bool) for p in parts):
            parts[0] = claripy.BoolV(parts[0])
        return fn(*parts)
    if op == "not":
        a = _build(t[1], ch, tap)
        return ~a if ch.pick(2) else claripy.Not(a)
    if op == "beq":
        return _build(t[1], ch, tap) == _build(t[2], ch, tap)
    if op == "bne":
        return _build(t[1], ch, tap) != _build(t[2], ch, tap)
    raise ValueError(f"build_claripy: {op}")
