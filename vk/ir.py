"""Reference expression IR ("what the caller wrote"), in SMT-LIB vocabulary.

A tree is a nested tuple/list ``(op, *params_and_children)``; JSON round-trips it as lists, so every
consumer accepts lists as well as tuples.  Sorts: ("bv", n), ("bool",), ("fp", "FLOAT"|"DOUBLE"),
("str",).

Any:   ("anno", spec, child)  -- child carrying an annotation (spec is interpreted by the builder's factory); same value
BV:    ("var", name, n) ("const", v, n)
       bvadd bvsub bvmul bvudiv bvurem bvsdiv bvsrem bvand bvor bvxor bvshl bvlshr bvashr rotl rotr : (op, a, b)
       bvneg bvnot bswap : (op, a)       ("concat", a, b, ...)  ("extract", hi, lo, a)
       ("zext", k, a) ("sext", k, a)     ("ite", c, a, b)
Bool:  ("bvar", name) ("bconst", bool)
       eq ne ult ule ugt uge slt sle sgt sge : (op, a, b) over BV
       ("and", ...) ("or", ...) ("not", a) ("beq", a, b) ("bne", a, b) ("bite", c, a, b)
FP / strings: see ir_fp.py / ir_str.py.
"""

from __future__ import annotations

BV_BIN = ("bvadd", "bvsub", "bvmul", "bvudiv", "bvurem", "bvsdiv", "bvsrem", "bvand", "bvor", "bvxor",
          "bvshl", "bvlshr", "bvashr", "rotl", "rotr")
BV_UN = ("bvneg", "bvnot", "bswap")
BV_CMP = ("eq", "ne", "ult", "ule", "ugt", "uge", "slt", "sle", "sgt", "sge")
BOOL_NARY = ("and", "or")
DIV_OPS = ("bvudiv", "bvurem", "bvsdiv", "bvsrem")


def T(x):
    """Deep list->tuple (after JSON)."""
    if isinstance(x, (list, tuple)):
        return tuple(T(y) for y in x)
    return x


def is_bool(t) -> bool:
    if t[0] == "anno":
        return is_bool(t[2])
    return t[0] in ("bvar", "bconst", "and", "or", "not", "beq", "bne", "bite") or t[0] in BV_CMP


def width(t) -> int:
    op = t[0]
    if op in ("var", "const"):
        return t[2]
    if op in BV_BIN or op in BV_UN:
        return width(t[1])
    if op == "concat":
        return sum(width(c) for c in t[1:])
    if op == "extract":
        return t[1] - t[2] + 1
    if op in ("zext", "sext"):
        return t[1] + width(t[2])
    if op == "ite":
        return width(t[2])
    if op == "anno":
        return width(t[2])
    raise ValueError(f"width of {op}")


def children(t):
    op = t[0]
    if op in ("var", "const", "bvar", "bconst"):
        return ()
    if op == "extract":
        return (t[3],)
    if op in ("zext", "sext", "anno"):
        return (t[2],)
    return tuple(t[1:])


def with_children(t, ch):
    op = t[0]
    if op in ("var", "const", "bvar", "bconst"):
        return t
    if op == "extract":
        return (op, t[1], t[2], ch[0])
    if op in ("zext", "sext", "anno"):
        return (op, t[1], ch[0])
    return (op, *ch)


def variables(t, acc=None):
    """dict name -> width (0 = Boolean)."""
    if acc is None:
        acc = {}
    if t[0] == "var":
        acc[t[1]] = t[2]
    elif t[0] == "bvar":
        acc[t[1]] = 0
    else:
        for c in children(t):
            variables(c, acc)
    return acc


def size(t) -> int:
    return 1 + sum(size(c) for c in children(t))


def n_ops(t) -> int:
    return (0 if t[0] in ("var", "const", "bvar", "bconst") else 1) + sum(n_ops(c) for c in children(t))


def depth(t) -> int:
    ch = children(t)
    return 1 + (max(depth(c) for c in ch) if ch else 0)


def ops_in(t, acc=None):
    if acc is None:
        acc = set()
    acc.add(t[0])
    for c in children(t):
        ops_in(c, acc)
    return acc


def subtrees(t):
    yield t
    for c in children(t):
        yield from subtrees(c)


def pretty(t) -> str:
    op = t[0]
    if op == "var":
        return f"{t[1]}"
    if op == "const":
        return f"{t[1]:#x}#{t[2]}"
    if op == "bvar":
        return t[1]
    if op == "bconst":
        return "true" if t[1] else "false"
    if op == "extract":
        return f"{pretty(t[3])}[{t[1]}:{t[2]}]"
    if op in ("zext", "sext"):
        return f"{op}({t[1]},{pretty(t[2])})"
    if op == "anno":
        return f"{pretty(t[2])}@{t[1]}"
    return f"{op}({','.join(pretty(c) for c in t[1:])})"


# ------------------------------------------------------------------------------------------------
# oracle 1: scalar semantics (SMT-LIB total semantics), arbitrary precision


def _mask(n):
    return (1 << n) - 1


def _signed(v, n):
    return v - (1 << n) if v >> (n - 1) else v


def bv_binop(op, a, b, n):
    m = _mask(n)
    if op == "bvadd":
        return (a + b) & m
    if op == "bvsub":
        return (a - b) & m
    if op == "bvmul":
        return (a * b) & m
    if op == "bvudiv":
        return m if b == 0 else a // b
    if op == "bvurem":
        return a if b == 0 else a % b
    if op == "bvsdiv":
        sa, sb = _signed(a, n), _signed(b, n)
        if sb == 0:
            return m if sa >= 0 else 1
        q = abs(sa) // abs(sb)
        if (sa < 0) != (sb < 0):
            q = -q
        return q & m
    if op == "bvsrem":
        sa, sb = _signed(a, n), _signed(b, n)
        if sb == 0:
            return a
        r = abs(sa) % abs(sb)
        if sa < 0:
            r = -r
        return r & m
    if op == "bvand":
        return a & b
    if op == "bvor":
        return a | b
    if op == "bvxor":
        return a ^ b
    if op == "bvshl":
        return 0 if b >= n else (a << b) & m
    if op == "bvlshr":
        return 0 if b >= n else a >> b
    if op == "bvashr":
        sa = _signed(a, n)
        return (sa >> min(b, n)) & m
    if op == "rotl":
        k = b % n
        return ((a << k) | (a >> (n - k))) & m
    if op == "rotr":
        k = b % n
        return ((a >> k) | (a << (n - k))) & m
    raise ValueError(op)


def bv_cmp(op, a, b, n):
    if op == "eq":
        return a == b
    if op == "ne":
        return a != b
    if op == "ult":
        return a < b
    if op == "ule":
        return a <= b
    if op == "ugt":
        return a > b
    if op == "uge":
        return a >= b
    sa, sb = _signed(a, n), _signed(b, n)
    if op == "slt":
        return sa < sb
    if op == "sle":
        return sa <= sb
    if op == "sgt":
        return sa > sb
    if op == "sge":
        return sa >= sb
    raise ValueError(op)


def bswap(v, n):
    out = 0
    for i in range(n // 8):
        out = (out << 8) | ((v >> (8 * i)) & 0xFF)
    return out


def ev(t, env):
    """Value of tree t under env (name -> int / bool)."""
    op = t[0]
    if op == "var":
        return env[t[1]]
    if op == "const":
        return t[1] & _mask(t[2])
    if op == "bvar":
        return bool(env[t[1]])
    if op == "bconst":
        return bool(t[1])
    if op in BV_BIN:
        return bv_binop(op, ev(t[1], env), ev(t[2], env), width(t[1]))
    if op == "bvneg":
        return (-ev(t[1], env)) & _mask(width(t[1]))
    if op == "bvnot":
        return ev(t[1], env) ^ _mask(width(t[1]))
    if op == "bswap":
        return bswap(ev(t[1], env), width(t[1]))
    if op == "concat":
        v = 0
        for c in t[1:]:
            v = (v << width(c)) | ev(c, env)
        return v
    if op == "extract":
        return (ev(t[3], env) >> t[2]) & _mask(t[1] - t[2] + 1)
    if op == "zext":
        return ev(t[2], env)
    if op == "sext":
        n = width(t[2])
        return _signed(ev(t[2], env), n) & _mask(n + t[1])
    if op in ("ite", "bite"):
        return ev(t[2], env) if ev(t[1], env) else ev(t[3], env)
    if op in BV_CMP:
        return bv_cmp(op, ev(t[1], env), ev(t[2], env), width(t[1]))
    if op == "and":
        return all(ev(c, env) for c in t[1:])
    if op == "or":
        return any(ev(c, env) for c in t[1:])
    if op == "not":
        return not ev(t[1], env)
    if op == "beq":
        return ev(t[1], env) == ev(t[2], env)
    if op == "bne":
        return ev(t[1], env) != ev(t[2], env)
    if op == "anno":
        return ev(t[2], env)
    raise ValueError(f"ev: {op}")


def zero_divisor_semantically(t) -> bool:
    """True iff the tree contains a division/remainder whose divisor is 0 under *every* assignment
    (decided on small domains by enumeration, on large ones conservatively by Z3 in sem_z3)."""
    from . import sem_z3

    for s in subtrees(t):
        if s[0] in DIV_OPS and sem_z3.always_equals(s[2], 0):
            return True
    return False


def all_envs(vars_, limit_bits=12):
    """All assignments if total bits <= limit_bits else None."""
    import itertools

    names = sorted(vars_)
    bits = sum(max(1, vars_[n]) for n in names)
    if bits > limit_bits:
        return None
    ranges = [range(2) if vars_[n] == 0 else range(1 << vars_[n]) for n in names]
    return [dict(zip(names, vals)) for vals in itertools.product(*ranges)]


def boundary_values(n):
    m = _mask(n)
    vals = {0, 1, 2, m, m - 1, 1 << (n - 1), (1 << (n - 1)) - 1, ((1 << (n - 1)) + 1) & m, n - 1, n, n + 1,
            0x55555555555555555555555555555555 & m, 0xAAAAAAAAAAAAAAAAAAAAAAAAAAAAAAAA & m, 0xFF & m, 0x80 & m, 0x7F & m}
    return sorted(v & m for v in vals)


def sample_envs(vars_, k, rnd):
    """k boundary-biased assignments; rnd is a deterministic PRNG seeded from the generated case."""
    names = sorted(vars_)
    out = []
    for _ in range(k):
        e = {}
        for nme in names:
            w = vars_[nme]
            if w == 0:
                e[nme] = rnd.random() < 0.5
            elif rnd.random() < 0.6:
                e[nme] = rnd.choice(boundary_values(w))
            else:
                e[nme] = rnd.getrandbits(w)
        out.append(e)
    return out
