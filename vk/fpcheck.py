"""Floating-point IR, independent Z3 FPA reference (exact concrete evaluation through Z3's rewriter),
claripy builder, generators with boundary operand pools.  Used by C02, C04, C09, C18, C26.

IR (sort in "FLOAT"/"DOUBLE", rm in RNE RNA RTP RTN RTZ):
  fp:   ("fconst", bits, sort) ("fvar", name, sort) ("fadd"|"fsub"|"fmul"|"fdiv", rm, a, b) ("fsqrt", rm, a)
        ("fabs", a) ("fneg", a) ("to_fp_fp", rm, a, sort) ("to_fp_sbv", rm, bv, sort) ("to_fp_ubv", rm, bv, sort)
        ("to_fp_bits", bv, sort) ("ffp", sgn, exp, sig) ("fite", c, a, b)
  bool: ("flt"|"fle"|"fgt"|"fge"|"feq"|"fne", a, b) ("isnan", a) ("isinf", a) ("bvar", name) ("bconst", b) ("eq", bv, bv)
  bv:   ("to_sbv", rm, a, size) ("to_ubv", rm, a, size) ("to_ieee", a) ("const", v, n) ("var", name, n)
"""

from __future__ import annotations

import math
import struct
from fractions import Fraction

import claripy
import z3
from hypothesis import strategies as st

from . import exprcheck

RMS = ("RNE", "RNA", "RTP", "RTN", "RTZ")
SORTS = ("FLOAT", "DOUBLE")
EB = {"FLOAT": 8, "DOUBLE": 11}
SB = {"FLOAT": 24, "DOUBLE": 53}
BITS = {"FLOAT": 32, "DOUBLE": 64}
FP_ARITH = ("fadd", "fsub", "fmul", "fdiv")
FP_CMP = ("flt", "fle", "fgt", "fge", "feq", "fne")


def T(x):
    if isinstance(x, (list, tuple)):
        return tuple(T(y) for y in x)
    return x


def kind(t):
    op = t[0]
    if op in ("fconst", "fvar", "fsqrt", "fabs", "fneg", "to_fp_fp", "to_fp_sbv", "to_fp_ubv", "to_fp_bits", "ffp", "fite") or op in FP_ARITH:
        return "fp"
    if op in FP_CMP or op in ("isnan", "isinf", "bvar", "bconst", "eq"):
        return "bool"
    return "bv"


def fsort(t):
    op = t[0]
    if op in ("fconst", "fvar"):
        return t[2]
    if op in FP_ARITH:
        return fsort(t[2])
    if op == "fsqrt":
        return fsort(t[2])
    if op in ("fabs", "fneg"):
        return fsort(t[1])
    if op in ("to_fp_fp", "to_fp_sbv", "to_fp_ubv"):
        return t[3]
    if op == "to_fp_bits":
        return t[2]
    if op == "ffp":
        return "FLOAT" if t[2][2] == 8 else "DOUBLE"
    if op == "fite":
        return fsort(t[2])
    raise ValueError(op)


def children(t):
    op = t[0]
    if op in ("fconst", "fvar", "const", "var", "bvar", "bconst"):
        return ()
    if op in FP_ARITH:
        return (t[2], t[3])
    if op in ("fsqrt", "to_fp_fp", "to_fp_sbv", "to_fp_ubv", "to_sbv", "to_ubv"):
        return (t[2],)
    if op == "to_fp_bits":
        return (t[1],)
    return tuple(t[1:])


def subtrees(t):
    yield t
    for c in children(t):
        yield from subtrees(c)


def n_ops(t):
    return (0 if not children(t) else 1) + sum(n_ops(c) for c in children(t))


def variables(t):
    out = {}
    for s in subtrees(t):
        if s[0] == "fvar":
            out[s[1]] = ("fp", s[2])
        elif s[0] == "var":
            out[s[1]] = ("bv", s[2])
        elif s[0] == "bvar":
            out[s[1]] = ("bool",)
    return out


def pretty(t):
    op = t[0]
    if op == "fconst":
        return f"{bits_to_float(t[1], t[2])!r}:{t[2][0]}[{t[1]:#x}]"
    if op in ("fvar", "var", "bvar"):
        return t[1]
    if op == "const":
        return f"{t[1]:#x}#{t[2]}"
    if op == "bconst":
        return str(t[1])
    parts = []
    for x in t[1:]:
        parts.append(pretty(x) if isinstance(x, tuple) else str(x))
    return op + "(" + ",".join(parts) + ")"


def bits_to_float(bits, sort):
    if sort == "FLOAT":
        return struct.unpack("<f", struct.pack("<I", bits))[0]
    return struct.unpack("<d", struct.pack("<Q", bits))[0]


def float_to_bits(v, sort):
    if sort == "FLOAT":
        return struct.unpack("<I", struct.pack("<f", v))[0]
    return struct.unpack("<Q", struct.pack("<d", v))[0]


def bits_is_nan(bits, sort):
    eb, sb = EB[sort], SB[sort]
    e = (bits >> (sb - 1)) & ((1 << eb) - 1)
    m = bits & ((1 << (sb - 1)) - 1)
    return e == (1 << eb) - 1 and m != 0


def bits_is_inf(bits, sort):
    eb, sb = EB[sort], SB[sort]
    e = (bits >> (sb - 1)) & ((1 << eb) - 1)
    m = bits & ((1 << (sb - 1)) - 1)
    return e == (1 << eb) - 1 and m == 0


def bits_to_fraction(bits, sort):
    return Fraction(bits_to_float(bits, sort))


# ------------------------------------------------------------------ Z3 reference

_Z3RM = {"RNE": z3.RNE, "RNA": z3.RNA, "RTP": z3.RTP, "RTN": z3.RTN, "RTZ": z3.RTZ}


def z3sort(s):
    return z3.Float32() if s == "FLOAT" else z3.Float64()


def z3term(t):
    op = t[0]
    if op == "fconst":
        return z3.fpBVToFP(z3.BitVecVal(t[1], BITS[t[2]]), z3sort(t[2]))
    if op == "fvar":
        return z3.FP(t[1], z3sort(t[2]))
    if op == "var":
        return z3.BitVec(t[1], t[2])
    if op == "const":
        return z3.BitVecVal(t[1], t[2])
    if op == "bvar":
        return z3.Bool(t[1])
    if op == "bconst":
        return z3.BoolVal(bool(t[1]))
    if op in FP_ARITH:
        f = {"fadd": z3.fpAdd, "fsub": z3.fpSub, "fmul": z3.fpMul, "fdiv": z3.fpDiv}[op]
        return f(_Z3RM[t[1]](), z3term(t[2]), z3term(t[3]))
    if op == "fsqrt":
        return z3.fpSqrt(_Z3RM[t[1]](), z3term(t[2]))
    if op == "fabs":
        return z3.fpAbs(z3term(t[1]))
    if op == "fneg":
        return z3.fpNeg(z3term(t[1]))
    if op == "to_fp_fp":
        return z3.fpFPToFP(_Z3RM[t[1]](), z3term(t[2]), z3sort(t[3]))
    if op == "to_fp_sbv":
        return z3.fpSignedToFP(_Z3RM[t[1]](), z3term(t[2]), z3sort(t[3]))
    if op == "to_fp_ubv":
        return z3.fpUnsignedToFP(_Z3RM[t[1]](), z3term(t[2]), z3sort(t[3]))
    if op == "to_fp_bits":
        return z3.fpBVToFP(z3term(t[1]), z3sort(t[2]))
    if op == "ffp":
        return z3.fpFP(z3term(t[1]), z3term(t[2]), z3term(t[3]))
    if op == "fite":
        return z3.If(z3term(t[1]), z3term(t[2]), z3term(t[3]))
    if op in FP_CMP:
        a, b = z3term(t[1]), z3term(t[2])
        if op == "fne":
            return z3.Not(z3.fpEQ(a, b))
        return {"flt": z3.fpLT, "fle": z3.fpLEQ, "fgt": z3.fpGT, "fge": z3.fpGEQ, "feq": z3.fpEQ}[op](a, b)
    if op == "eq":  # bit-vector equality (used by C26 to pin IEEE bit patterns / integer sources)
        return z3term(t[1]) == z3term(t[2])
    if op == "isnan":
        return z3.fpIsNaN(z3term(t[1]))
    if op == "isinf":
        return z3.fpIsInf(z3term(t[1]))
    if op == "to_sbv":
        return z3.fpToSBV(_Z3RM[t[1]](), z3term(t[2]), z3.BitVecSort(t[3]))
    if op == "to_ubv":
        return z3.fpToUBV(_Z3RM[t[1]](), z3term(t[2]), z3.BitVecSort(t[3]))
    if op == "to_ieee":
        return z3.fpToIEEEBV(z3term(t[1]))
    raise ValueError(op)


def z3_subst(term, env, vars_):
    subs = []
    for name, info in vars_.items():
        if name not in env:
            continue
        v = env[name]
        if info[0] == "fp":
            subs.append((z3.FP(name, z3sort(info[1])), z3.fpBVToFP(z3.BitVecVal(v, BITS[info[1]]), z3sort(info[1]))))
        elif info[0] == "bv":
            subs.append((z3.BitVec(name, info[1]), z3.BitVecVal(v, info[1])))
        else:
            subs.append((z3.Bool(name), z3.BoolVal(bool(v))))
    return z3.substitute(term, *subs) if subs else term


def z3_ground_value(term):
    """-> ("nan",) | ("fp", bits) | ("bv", int) | ("bool", b); raises ValueError if not ground."""
    r = z3.simplify(term)
    if z3.is_fp(r):
        if z3.is_true(z3.simplify(z3.fpIsNaN(r))):
            return ("nan",)
        b = z3.simplify(z3.fpToIEEEBV(r))
        if not z3.is_bv_value(b):
            raise ValueError(f"not ground: {r}")
        return ("fp", b.as_long())
    if z3.is_bv_value(r):
        return ("bv", r.as_long())
    if z3.is_true(r):
        return ("bool", True)
    if z3.is_false(r):
        return ("bool", False)
    raise ValueError(f"not ground: {r}")


def _round_int(fr: Fraction, rm):
    fl = math.floor(fr)
    if fr == fl:
        return fl
    if rm == "RTN":
        return fl
    if rm == "RTP":
        return fl + 1
    if rm == "RTZ":
        return fl if fr > 0 else fl + 1
    d = fr - fl
    if d < Fraction(1, 2):
        return fl
    if d > Fraction(1, 2):
        return fl + 1
    if rm == "RNE":
        return fl if fl % 2 == 0 else fl + 1
    return fl + 1 if fr > 0 else fl  # RNA: away from zero


def unspecified_under(t, env, vars_):
    """True if, under env, the tree's value is one SMT-LIB leaves unspecified: to_sbv/to_ubv of NaN, inf or
    an out-of-range value, or the IEEE bit pattern of a NaN (payload/sign)."""
    for s in subtrees(t):
        if s[0] in ("to_sbv", "to_ubv", "to_ieee"):
            operand = s[2] if s[0] != "to_ieee" else s[1]
            try:
                v = z3_ground_value(z3_subst(z3term(operand), env, vars_))
            except ValueError:
                return True
            if v[0] == "nan":
                return True
            if s[0] == "to_ieee":
                continue
            srt = fsort(operand)
            if bits_is_inf(v[1], srt):
                return True
            iv = _round_int(bits_to_fraction(v[1], srt), s[1])
            n = s[3]
            if s[0] == "to_sbv" and not (-(1 << (n - 1)) <= iv <= (1 << (n - 1)) - 1):
                return True
            if s[0] == "to_ubv" and not (0 <= iv <= (1 << n) - 1):
                return True
    return False


# ------------------------------------------------------------------ claripy builder

_RM = {
    "RNE": claripy.fp.RM.RM_NearestTiesEven,
    "RNA": claripy.fp.RM.RM_NearestTiesAwayFromZero,
    "RTP": claripy.fp.RM.RM_TowardsPositiveInf,
    "RTN": claripy.fp.RM.RM_TowardsNegativeInf,
    "RTZ": claripy.fp.RM.RM_TowardsZero,
}
_SORT = {"FLOAT": claripy.FSORT_FLOAT, "DOUBLE": claripy.FSORT_DOUBLE}


class _Plain:
    def pick(self, n):
        return 0


def build(t, ch=None):
    if ch is None:
        ch = _Plain()
    op = t[0]
    if op == "fconst":
        return claripy.FPV(bits_to_float(t[1], t[2]), _SORT[t[2]])
    if op == "fvar":
        return claripy.FPS(t[1], _SORT[t[2]], explicit_name=True)
    if op == "var":
        return claripy.BVS(t[1], t[2], explicit_name=True)
    if op == "const":
        return claripy.BVV(t[1], t[2])
    if op == "bvar":
        return claripy.BoolS(t[1], explicit_name=True)
    if op == "bconst":
        return claripy.BoolV(bool(t[1]))
    if op in FP_ARITH:
        a, b = build(t[2], ch), build(t[3], ch)
        rm = _RM[t[1]]
        if t[1] == "RNE" and ch.pick(3) == 1:
            return {"fadd": lambda: a + b, "fsub": lambda: a - b, "fmul": lambda: a * b, "fdiv": lambda: a / b}[op]()
        f = {"fadd": claripy.fpAdd, "fsub": claripy.fpSub, "fmul": claripy.fpMul, "fdiv": claripy.fpDiv}[op]
        return f(rm, a, b)
    if op == "fsqrt":
        return claripy.fpSqrt(_RM[t[1]], build(t[2], ch))
    if op == "fabs":
        a = build(t[1], ch)
        return abs(a) if ch.pick(2) else claripy.fpAbs(a)
    if op == "fneg":
        a = build(t[1], ch)
        return -a if ch.pick(2) else claripy.fpNeg(a)
    if op == "to_fp_fp":
        a = build(t[2], ch)
        return a.to_fp(_SORT[t[3]], _RM[t[1]]) if ch.pick(2) else claripy.fpToFP(_RM[t[1]], a, _SORT[t[3]])
    if op == "to_fp_sbv":
        a = build(t[2], ch)
        return a.val_to_fp(_SORT[t[3]], signed=True, rm=_RM[t[1]]) if ch.pick(2) else claripy.fpToFP(_RM[t[1]], a, _SORT[t[3]])
    if op == "to_fp_ubv":
        a = build(t[2], ch)
        return a.val_to_fp(_SORT[t[3]], signed=False, rm=_RM[t[1]]) if ch.pick(2) else claripy.fpToFPUnsigned(_RM[t[1]], a, _SORT[t[3]])
    if op == "to_fp_bits":
        a = build(t[1], ch)
        return a.raw_to_fp() if ch.pick(2) else claripy.fpToFP(a, _SORT[t[2]])
    if op == "ffp":
        return claripy.fpFP(build(t[1], ch), build(t[2], ch), build(t[3], ch))
    if op == "fite":
        return claripy.If(build(t[1], ch), build(t[2], ch), build(t[3], ch))
    if op in FP_CMP:
        a, b = build(t[1], ch), build(t[2], ch)
        if ch.pick(2):
            return {"flt": lambda: a < b, "fle": lambda: a <= b, "fgt": lambda: a > b, "fge": lambda: a >= b,
                    "feq": lambda: a == b, "fne": lambda: a != b}[op]()
        return {"flt": claripy.fpLT, "fle": claripy.fpLEQ, "fgt": claripy.fpGT, "fge": claripy.fpGEQ,
                "feq": claripy.fpEQ, "fne": claripy.fpNEQ}[op](a, b)
    if op == "eq":
        return build(t[1], ch) == build(t[2], ch)
    if op == "isnan":
        a = build(t[1], ch)
        return a.isNaN() if ch.pick(2) else claripy.fpIsNaN(a)
    if op == "isinf":
        a = build(t[1], ch)
        return a.isInf() if ch.pick(2) else claripy.fpIsInf(a)
    if op == "to_sbv":
        a = build(t[2], ch)
        return a.val_to_bv(t[3], signed=True, rm=_RM[t[1]]) if ch.pick(2) else claripy.fpToSBV(_RM[t[1]], a, t[3])
    if op == "to_ubv":
        a = build(t[2], ch)
        return a.val_to_bv(t[3], signed=False, rm=_RM[t[1]]) if ch.pick(2) else claripy.fpToUBV(_RM[t[1]], a, t[3])
    if op == "to_ieee":
        a = build(t[1], ch)
        return a.raw_to_bv() if ch.pick(2) else claripy.fpToIEEEBV(a)
    raise ValueError(op)


def claripy_ground_value(r):
    """Value of a *folded* claripy result, same shape as z3_ground_value; None if not a literal."""
    if r.op == "FPV":
        v = r.args[0]
        srt = "FLOAT" if r.args[1] == claripy.FSORT_FLOAT else "DOUBLE"
        if math.isnan(v):
            return ("nan",)
        return ("fp", float_to_bits(v, srt))
    if r.op == "BVV":
        return ("bv", r.args[0])
    if r.op == "BoolV":
        return ("bool", bool(r.args[0]))
    return None


# ------------------------------------------------------------------ generators


def pool(sort):
    eb, sb = EB[sort], SB[sort]
    n = BITS[sort]
    mant = sb - 1
    emax = (1 << eb) - 1
    sign = 1 << (n - 1)
    vals = set()

    def mk(e, m, s=0):
        return (s << (n - 1)) | (e << mant) | m

    base = [
        mk(0, 0), mk(0, 1), mk(0, (1 << mant) - 1), mk(1, 0), mk(emax - 1, (1 << mant) - 1), mk(emax, 0), mk(emax, 1 << (mant - 1)),
        mk(emax, 1), float_to_bits(1.0, sort), float_to_bits(1.0, sort) + 1, float_to_bits(1.0, sort) - 1, float_to_bits(1.5, sort),
        float_to_bits(2.5, sort), float_to_bits(0.5, sort), float_to_bits(3.5, sort), float_to_bits(0.1, sort), float_to_bits(1 / 3, sort),
        float_to_bits(3.0, sort), float_to_bits(2.0, sort), float_to_bits(10.0, sort), float_to_bits(0.75, sort),
        float_to_bits(float(2**24 - 1), sort), float_to_bits(float(2**24), sort), float_to_bits(float(2**24 + 2), sort),
        float_to_bits(float(2**31), sort), float_to_bits(float(2**31 - 128), sort), float_to_bits(float(2**32), sort),
        float_to_bits(float(2**63), sort), float_to_bits(float(2**64), sort), float_to_bits(127.5, sort), float_to_bits(128.5, sort),
        float_to_bits(255.5, sort), float_to_bits(1e-30, sort), float_to_bits(1e30, sort),
    ]
    if sort == "DOUBLE":
        base += [float_to_bits(float(2**53 - 1), sort), float_to_bits(float(2**53), sort), float_to_bits(float(2**53 + 2), sort),
                 float_to_bits(float(2**63 - 1024), sort), float_to_bits(1e300, sort), float_to_bits(1e-300, sort),
                 float_to_bits(16777217.0, sort), float_to_bits(1.0000000596046448, sort), float_to_bits(3.4028235677973366e38, sort),
                 float_to_bits(7.006492321624085e-46, sort)]
    for b in base:
        vals.add(b)
        vals.add(b ^ sign)
    return sorted(vals)


def fconsts(sort):
    p = pool(sort)
    return st.one_of(st.sampled_from(p), st.sampled_from(p), st.integers(0, (1 << BITS[sort]) - 1)).map(lambda b: ("fconst", b, sort))


def int_consts(n):
    m = (1 << n) - 1
    p = sorted({0, 1, 2, m, m - 1, 1 << (n - 1), (1 << (n - 1)) - 1, (1 << (n - 1)) + 1, (2**24 + 1) & m, (2**24 - 1) & m,
                (2**53 + 1) & m, (2**53 - 1) & m, (2**63 - 1) & m, (2**31 + 129) & m, 0x7FFFFFBF & m, 0xFFFFFF7F & m, 3, 5, 255})
    return st.one_of(st.sampled_from(p), st.integers(0, m)).map(lambda v: ("const", v, n))


@st.composite
def fp_tree(draw, sort, depth, symbolic):
    if depth <= 0 or draw(st.integers(0, 9)) < 3:
        if symbolic and draw(st.integers(0, 2)) < (2 if symbolic == "mostly" else 1):
            return ("fvar", f"f{draw(st.integers(0, 1))}_{sort[0]}", sort)
        return draw(fconsts(sort))
    d = depth - 1
    k = draw(st.sampled_from(("arith", "arith", "arith", "sqrt", "abs", "neg", "conv_fp", "conv_sbv", "conv_ubv", "bits", "ffp", "ite")))
    rm = draw(st.sampled_from(RMS + ("RNE",)))
    if k == "arith":
        return (draw(st.sampled_from(FP_ARITH)), rm, draw(fp_tree(sort, d, symbolic)), draw(fp_tree(sort, d, symbolic)))
    if k == "sqrt":
        return ("fsqrt", rm, draw(fp_tree(sort, d, symbolic)))
    if k == "abs":
        return ("fabs", draw(fp_tree(sort, d, symbolic)))
    if k == "neg":
        return ("fneg", draw(fp_tree(sort, d, symbolic)))
    if k == "conv_fp":
        src = draw(st.sampled_from(SORTS))
        return ("to_fp_fp", rm, draw(fp_tree(src, d, symbolic)), sort)
    if k in ("conv_sbv", "conv_ubv"):
        n = draw(st.sampled_from((8, 32, 64, 16, 1, 65)))
        return ("to_fp_sbv" if k == "conv_sbv" else "to_fp_ubv", rm, draw(bv_tree(n, d, symbolic)), sort)
    if k == "bits":
        return ("to_fp_bits", draw(bv_tree(BITS[sort], d, symbolic)), sort)
    if k == "ffp":
        eb, sb = EB[sort], SB[sort]
        return ("ffp", draw(int_consts(1)), draw(int_consts(eb)), draw(int_consts(sb - 1)))
    return ("fite", draw(bool_tree(d, symbolic)), draw(fp_tree(sort, d, symbolic)), draw(fp_tree(sort, d, symbolic)))


@st.composite
def bv_tree(draw, n, depth, symbolic):
    if depth <= 0 or draw(st.integers(0, 9)) < 4:
        if symbolic and draw(st.integers(0, 3)) < (2 if symbolic == "mostly" else 1):
            return ("var", f"b0_{n}", n)
        return draw(int_consts(n))
    d = depth - 1
    srt = draw(st.sampled_from(SORTS))
    if BITS[srt] == n and draw(st.booleans()):
        return ("to_ieee", draw(fp_tree(srt, d, symbolic)))
    return (draw(st.sampled_from(("to_sbv", "to_ubv"))), draw(st.sampled_from(RMS)), draw(fp_tree(srt, d, symbolic)), n)


@st.composite
def bool_tree(draw, depth, symbolic):
    srt = draw(st.sampled_from(SORTS))
    d = max(depth - 1, 0)
    k = draw(st.sampled_from(FP_CMP + ("isnan", "isinf")))
    if k in FP_CMP:
        return (k, draw(fp_tree(srt, d, symbolic)), draw(fp_tree(srt, d, symbolic)))
    return (k, draw(fp_tree(srt, d, symbolic)))


@st.composite
def any_tree(draw, max_depth=3, symbolic=False):
    d = draw(st.integers(1, max_depth))
    k = draw(st.integers(0, 3))
    if k <= 1:
        t = draw(fp_tree(draw(st.sampled_from(SORTS)), d, symbolic))
        if not children(t):
            t = ("fneg", t)
        return t
    if k == 2:
        n = draw(st.sampled_from((8, 16, 32, 64, 1, 63, 65)))
        t = draw(bv_tree(n, d, symbolic))
        if not children(t):
            srt = draw(st.sampled_from(SORTS))
            t = (draw(st.sampled_from(("to_sbv", "to_ubv"))), draw(st.sampled_from(RMS)), draw(fp_tree(srt, 0, symbolic)), n)
        return t
    return draw(bool_tree(d, symbolic))


def special_bits(sort):
    """One representative bit pattern per special class (+/-0, +/-inf, NaN, subnormal, 1.0, largest finite, a tie)."""
    n = BITS[sort]
    sign = 1 << (n - 1)
    inf = ((1 << EB[sort]) - 1) << (SB[sort] - 1)
    return [0, sign, inf, inf | sign, inf | 1 << (SB[sort] - 2), 1, float_to_bits(1.0, sort), inf - 1, float_to_bits(2.5, sort), float_to_bits(-1.5, sort)]


def envs_for(t, draw, extra=4, vars_=None):
    """Assignments for the variables of t: every special class for every FP variable (rotated), plus `extra` drawn ones."""
    vars_ = variables(T(t)) if vars_ is None else vars_
    envs = []
    names = sorted(vars_)
    for k in range(10):
        env = {}
        for j, name in enumerate(names):
            info = vars_[name]
            if info[0] == "fp":
                sp_ = special_bits(info[1])
                env[name] = sp_[(k + 3 * j) % len(sp_)]
            elif info[0] == "bv":
                m = (1 << info[1]) - 1
                env[name] = [0, 1, m, 1 << (info[1] - 1), m >> 1, (2**24 + 1) & m, 3, (2**53 + 1) & m, 255 & m, 2 & m][(k + j) % 10]
            else:
                env[name] = bool((k + j) % 2)
        envs.append(env)
    for _ in range(extra):
        env = {}
        for name in names:
            info = vars_[name]
            if info[0] == "fp":
                env[name] = draw(st.sampled_from(pool(info[1])))
            elif info[0] == "bv":
                env[name] = draw(int_consts(info[1]))[1]
            else:
                env[name] = draw(st.booleans())
        envs.append(env)
    return envs if names else [{}]


def crash_cases(tier):
    return st.tuples(any_tree(3), st.integers(0, 2**32 - 1)).map(lambda v: {"sort": "fp", "tree": v[0], "spell": v[1]})


def special_class(bits, sort):
    if bits_is_nan(bits, sort):
        return "nan"
    if bits_is_inf(bits, sort):
        return "inf"
    eb, sb = EB[sort], SB[sort]
    e = (bits >> (sb - 1)) & ((1 << eb) - 1)
    m = bits & ((1 << (sb - 1)) - 1)
    if e == 0 and m == 0:
        return "zero"
    if e == 0:
        return "subnormal"
    return "normal"


def is_nontrivial(t):
    for s in subtrees(t):
        if s[0] == "fconst" and special_class(s[1], s[2]) != "normal":
            return True
        if s[0] in FP_ARITH + ("fsqrt", "to_fp_fp", "to_fp_sbv", "to_fp_ubv", "to_sbv", "to_ubv") and s[1] != "RNE":
            return True
    return False


def classify_crash(case):
    from . import build_claripy

    t = T(case["tree"])
    info = {"classes": [], "nontrivial": n_ops(t) >= 2 and is_nontrivial(t)}
    try:
        build(t, build_claripy.Chooser(case.get("spell", 0)))
    except Exception as e:  # noqa: BLE001 - FLOAT/DOUBLE are the supported sorts, so no documented error applies
        return [(exprcheck.exc_fingerprint(e), {"tree": pretty(t), "exc": f"{type(e).__name__}: {str(e)[:200]}"})], info
    info["classes"].append("returned-ast")
    return [], info
