"""C08 -- substitution, canonicalization and ITE utilities preserve meaning."""

from __future__ import annotations

import itertools
import random

import claripy
from hypothesis import strategies as st

from .. import ast_interp, build_claripy, exprcheck, gen, hyp, ir, sem_z3

ID = "C08"
LEVEL = "exploration"
RULE = (
    "Generated expressions (C01 grammar with If weighted up, nested/shared/negated conditions) and generated arguments for each "
    "utility: replace (leaf and sub-tree), replace_dict (several keys, simultaneous), canonicalize, identical, excavate_ite, "
    "burrow_ite, ite_cases (overlapping / constant / duplicate-value cases), ite_dict (0-9 keys incl. boundary keys), "
    "reverse_ite_cases, chop (every divisor), get_bytes (every legal index/size). Oracle: an evaluator-level specification of each "
    "utility checked over all assignments (<=10 variable bits) or 48 boundary-biased samples plus a Z3 equivalence query where the "
    "specification is itself an expression. Non-trivial: the utility changed the AST and (ITE utilities) the input has >=1 ite / "
    "(replace) the replaced term occurs; distinct by SHA-1 of the case."
)
ASSUMPTIONS = ["reference = IR evaluator + Z3 (as C01)", "identical(): only True answers are checked (False carries no information)"]
BUDGET_S = {"quick": 200, "thorough": 2400}
N = {"quick": 500, "thorough": 12000}
UTILS = ("replace_leaf", "replace_subtree", "replace_dict", "canonicalize", "identical", "excavate", "burrow", "ite_cases", "ite_dict",
         "reverse_ite_cases", "chop", "get_bytes")


def shards(tier, seed):
    out = []
    for u in UTILS:
        for i in range(2 if tier == "quick" else 4):
            out.append({"util": u, "i": i, "n": N[tier], "hseed": seed * 1000 + 500 + len(out)})
    return out


def _envs(vs, spell):
    envs = ir.all_envs(vs, 10) if vs else [{}]
    if envs is not None:
        return envs
    return ir.sample_envs(vs, 48, random.Random(spell))


def _subst(t, mapping):
    """IR-level simultaneous substitution of variable leaves."""
    if t[0] == "var" and t[1] in mapping:
        return mapping[t[1]]
    if t[0] == "bvar" and t[1] in mapping:
        return mapping[t[1]]
    ch = ir.children(t)
    return ir.with_children(t, [_subst(c, mapping) for c in ch]) if ch else t


def _cmp(ref_tree, result, spell, what):
    f, _ = exprcheck.compare_meaning(ref_tree, result, spell)
    if f is None:
        return []
    return [(f"{what}:{f[0]}", {"reference": ir.pretty(ref_tree), **f[1]})]


def _b(t, spell=None):
    return build_claripy.build(ir.T(t), build_claripy.Chooser(spell) if spell is not None else None)


def check_case(case):
    u = case["util"]
    spell = case.get("spell", 0)
    info = {"classes": [f"util:{u}"], "nontrivial": False}
    fails = []
    try:
        fails = _CHECKS[u](case, spell, info)
    except claripy.errors.ClaripyZeroDivisionError:
        info["classes"].append("zero-division")
    return fails, info


def _has_ite(t):
    return any(s[0] in ("ite", "bite") for s in ir.subtrees(t))


def c_replace_leaf(case, spell, info):
    t, name, new = ir.T(case["tree"]), case["var"], ir.T(case["new"])
    r = _b(t, spell)
    w = ir.variables(t).get(name)
    if w is None:
        return []
    v = claripy.BoolS(name, explicit_name=True) if w == 0 else claripy.BVS(name, w, explicit_name=True)
    res = claripy.replace(r, v, _b(new))
    info["nontrivial"] = res is not r and sum(1 for s in ir.subtrees(t) if s[0] in ("var", "bvar") and s[1] == name) >= 2
    return _cmp(_subst(t, {name: new}), res, spell, "replace-leaf")


def c_replace_dict(case, spell, info):
    t = ir.T(case["tree"])
    r = _b(t, spell)
    mapping = {k: ir.T(v) for k, v in case["mapping"].items() if k in ir.variables(t)}
    if not mapping:
        return []
    d = {}
    for name, new in mapping.items():
        w = ir.variables(t)[name]
        v = claripy.BoolS(name, explicit_name=True) if w == 0 else claripy.BVS(name, w, explicit_name=True)
        d[v.hash()] = _b(new)
    res = claripy.replace_dict(r, d)
    info["nontrivial"] = res is not r and len(mapping) >= 2
    return _cmp(_subst(t, mapping), res, spell, "replace_dict")


def c_replace_subtree(case, spell, info):
    t, new = ir.T(case["tree"]), ir.T(case["new"])
    subs = [s for s in ir.subtrees(t) if ir.n_ops(s) >= 1 and s is not t]
    if not subs:
        return []
    old = subs[case["pick"] % len(subs)]
    if ir.is_bool(old) != ir.is_bool(new) or (not ir.is_bool(old) and ir.width(old) != ir.width(new)):
        return []
    r = _b(t)  # plain spelling so that the sub-tree is built identically on its own
    old_ast = _b(old)
    isb = ir.is_bool(old)
    tv = claripy.BoolS("tq", explicit_name=True) if isb else claripy.BVS("tq_%d" % ir.width(old), ir.width(old), explicit_name=True)
    tname = tv.args[0]
    res1 = claripy.replace(r, old_ast, tv)
    res2 = claripy.replace(r, old_ast, _b(new))
    vs = dict(ir.variables(t))
    vs.update(ir.variables(new))
    fails = []
    info["nontrivial"] = res1 is not r
    info["classes"].append("subtree-found" if res1 is not r else "subtree-not-found")
    for e in _envs(vs, spell):
        want = ir.ev(t, e)
        got1 = ast_interp.ev(res1, {**e, tname: ir.ev(old, e)})
        if got1 != want:
            fails.append(("replace-subtree:fresh-var", {"tree": ir.pretty(t), "old": ir.pretty(old), "env": e, "expected": want, "got": got1, "result": repr(res1)[:200]}))
            break
        got2 = ast_interp.ev(res2, e)
        ref2 = ast_interp.ev(res1, {**e, tname: ir.ev(new, e)})
        if got2 != ref2:
            fails.append(("replace-subtree:new", {"tree": ir.pretty(t), "old": ir.pretty(old), "new": ir.pretty(new), "env": e, "expected": ref2, "got": got2}))
            break
    return fails


def c_canonicalize(case, spell, info):
    t = ir.T(case["tree"])
    r = _b(t, spell)
    var_map, counter, canon = r.canonicalize()
    fails = []
    leaves = ast_interp.leaf_symbols(r)
    new_names = {}
    by_hash = {}
    for l in r.leaf_asts():
        if l.op in ("BVS", "BoolS"):
            by_hash[l.hash()] = l
    for h, l in by_hash.items():
        if h not in var_map:
            fails.append(("canonicalize:unmapped", {"tree": ir.pretty(t), "leaf": repr(l)}))
            continue
        nv = var_map[h]
        if nv.op != l.op or nv.length != l.length:
            fails.append(("canonicalize:sort-changed", {"leaf": repr(l), "mapped": repr(nv)}))
        new_names[l.args[0]] = nv.args[0]
    if len(set(new_names.values())) != len(new_names):
        fails.append(("canonicalize:not-injective", {"tree": ir.pretty(t), "map": new_names}))
    if fails:
        return fails
    info["nontrivial"] = canon is not r and len(new_names) >= 2
    vs = ir.variables(t)
    for e in _envs(vs, spell):
        want = ir.ev(t, e)
        e2 = {new_names[k]: v for k, v in e.items() if k in new_names}
        try:
            got = ast_interp.ev(canon, e2)
        except KeyError as k:
            return [("canonicalize:foreign-variable", {"tree": ir.pretty(t), "name": str(k), "canon": repr(canon)[:200]})]
        if got != want:
            return [("canonicalize:value", {"tree": ir.pretty(t), "env": e, "expected": want, "got": got, "canon": repr(canon)[:200]})]
    # chained use: a second expression canonicalised with the returned (var_map, counter) keeps the renaming injective
    if "tree2" in case:
        t2 = ir.T(case["tree2"])
        r2 = _b(t2, spell)
        vm2, _c2, canon2 = r2.canonicalize(var_map=dict(var_map), counter=counter)
        names = {}
        for h, nv in vm2.items():
            if nv.op in ("BVS", "BoolS", "FPS", "StringS"):  # (replace_dict also memoises rewritten inner nodes in the map)
                names.setdefault(nv.args[0], set()).add(h)
        dup = {k: v for k, v in names.items() if len(v) > 1}
        if dup:
            return [("canonicalize:chained-not-injective", {"tree": ir.pretty(t), "tree2": ir.pretty(t2), "clash": sorted(dup)})]
    return []


def _equal_under(ta, tb, ren, spell):
    """ta == tb on all (or sampled) assignments where tb's variable vb is tied to ta's variable ren[vb];
    variables outside ren (on either side) range freely."""
    va, vb = ir.variables(ta), ir.variables(tb)
    vs = dict(va)
    for n, w in vb.items():
        if n not in ren:
            vs["#b#" + n] = w
    for e in _envs(vs, spell):
        eb = {n: (e[ren[n]] if n in ren else e["#b#" + n]) for n in vb}
        if ir.ev(ta, e) != ir.ev(tb, eb):
            return False
    return True


def _partial_injections(names_b, names_a, ok):
    """All injective partial maps names_b -> names_a with ok(b, a), largest first."""
    def rec(i, used):
        if i == len(names_b):
            yield {}
            return
        b = names_b[i]
        for a in names_a:
            if a not in used and ok(b, a):
                for rest in rec(i + 1, used | {a}):
                    yield {b: a, **rest}
        yield from rec(i + 1, used)

    yield from rec(0, frozenset())


def c_identical(case, spell, info):
    ta, tb = ir.T(case["a"]), ir.T(case["b"])
    if ir.is_bool(ta) != ir.is_bool(tb) or (not ir.is_bool(ta) and ir.width(ta) != ir.width(tb)):
        return []
    a, b = _b(ta, spell), _b(tb, spell + 1)
    try:
        ans = a.identical(b)
    except claripy.errors.ClaripyError as e:
        info["classes"].append("identical-raised:" + type(e).__name__)  # no answer, hence no claim to check (counted)
        return []
    info["classes"].append(f"answer:{bool(ans)}")
    if not ans:
        return []
    info["nontrivial"] = a is not b
    va, vb = ir.variables(ta), ir.variables(tb)
    # the claim: some sort-preserving bijection of variables makes them equal.  Variables that do not influence the value
    # may be missing on either side, so injections from the smaller into the larger set are tried as well.
    names_a, names_b = sorted(va), sorted(vb)
    for ren in _partial_injections(names_b, names_a, lambda b_, a_: va[a_] == vb[b_]):
        if _equal_under(ta, tb, ren, spell):
            return []
    return [("identical:true-but-different", {"a": ir.pretty(ta), "b": ir.pretty(tb), "a_built": repr(a)[:200], "b_built": repr(b)[:200]})]


def c_excavate(case, spell, info):
    t = ir.T(case["tree"])
    r = _b(t, spell)
    try:
        res = claripy.excavate_ite(r)
    except claripy.errors.ClaripyZeroDivisionError:
        # excavation makes a branch fully concrete and claripy folds it: a concrete division by zero, the documented exemption
        info["classes"].append("exempt-concrete-zero-division")
        return []
    except Exception as e:  # noqa: BLE001
        return [("excavate_ite:raises:" + exprcheck.exc_fingerprint(e), {"tree": ir.pretty(t), "exc": repr(e)[:200]})]
    info["nontrivial"] = res is not r and _has_ite(t)
    return _cmp(t, res, spell, "excavate_ite")


def c_burrow(case, spell, info):
    t = ir.T(case["tree"])
    r = _b(t, spell)
    try:
        res = claripy.burrow_ite(r)
    except claripy.errors.ClaripyZeroDivisionError:
        info["classes"].append("exempt-concrete-zero-division")
        return []
    except Exception as e:  # noqa: BLE001 - the utility is specified to return an equivalent expression for every expression
        return [("burrow_ite:raises:" + exprcheck.exc_fingerprint(e), {"tree": ir.pretty(t), "exc": repr(e)[:200]})]
    info["nontrivial"] = res is not r and _has_ite(t)
    return _cmp(t, res, spell, "burrow_ite")


def c_ite_cases(case, spell, info):
    cases = [(ir.T(c), ir.T(v)) for c, v in case["cases"]]
    default = ir.T(case["default"])
    res = claripy.ite_cases([(_b(c, spell), _b(v, spell)) for c, v in cases], _b(default, spell))
    ref = default
    for c, v in reversed(cases):
        ref = ("bite" if ir.is_bool(v) else "ite", c, v, ref)
    info["nontrivial"] = len(cases) >= 2
    return _cmp(ref, res, spell, "ite_cases")


def c_ite_dict(case, spell, info):
    i = ir.T(case["index"])
    n = ir.width(i)
    d = {int(k) & ((1 << n) - 1): ir.T(v) for k, v in case["table"]}
    default = ir.T(case["default"])
    # the keys are handed over as generated (possibly negative integers); the reference uses their bit patterns
    res = claripy.ite_dict(_b(i, spell), {int(k): _b(ir.T(v), spell) for k, v in case["table"]}, _b(default, spell))
    ref = default
    for k, v in d.items():
        ref = ("ite", ("eq", i, ("const", k, n)), v, ref)
    info["nontrivial"] = len(d) >= 4
    info["classes"].append("table>=4" if len(d) >= 4 else "table<4")
    return _cmp(ref, res, spell, "ite_dict")


def c_reverse_ite_cases(case, spell, info):
    t = ir.T(case["tree"])
    r = _b(t, spell)
    pairs = list(claripy.reverse_ite_cases(r))
    info["nontrivial"] = len(pairs) >= 2
    vs = ir.variables(t)
    for e in _envs(vs, spell):
        want = ir.ev(t, e)
        hit = False
        for c, v in pairs:
            if ast_interp.ev(c, e):
                hit = True
                got = ast_interp.ev(v, e)
                if got != want:
                    return [("reverse_ite_cases:value", {"tree": ir.pretty(t), "env": e, "cond": repr(c)[:150], "expected": want, "got": got})]
        if not hit:
            return [("reverse_ite_cases:not-exhaustive", {"tree": ir.pretty(t), "env": e})]
    return []


def c_chop(case, spell, info):
    t = ir.T(case["tree"])
    n = ir.width(t)
    bits = case["bits"]
    r = _b(t, spell)
    parts = r.chop(bits)
    fails = []
    if any(p.length != bits for p in parts) or len(parts) != n // bits:
        fails.append(("chop:piece-width", {"tree": ir.pretty(t), "bits": bits, "got": [p.length for p in parts]}))
        return fails
    info["nontrivial"] = len(parts) >= 2
    return _cmp(t, claripy.Concat(*parts) if len(parts) > 1 else parts[0], spell, "chop")


def c_get_bytes(case, spell, info):
    t = ir.T(case["tree"])
    n = ir.width(t)
    nb = (n + 7) // 8
    index, size = case["index"], case["size"]
    r = _b(t, spell)
    res = r.get_byte(index) if size == 1 and case.get("single") else r.get_bytes(index, size)
    pad = nb * 8 - n
    padded = ("zext", pad, t) if pad else t
    lo = (nb - index - size) * 8
    ref = ("extract", lo + size * 8 - 1, lo, padded)
    info["nontrivial"] = n % 8 != 0 or size < nb
    return _cmp(ref, res, spell, "get_bytes")


_CHECKS = {
    "replace_leaf": c_replace_leaf, "replace_subtree": c_replace_subtree, "replace_dict": c_replace_dict, "canonicalize": c_canonicalize,
    "identical": c_identical, "excavate": c_excavate, "burrow": c_burrow, "ite_cases": c_ite_cases, "ite_dict": c_ite_dict,
    "reverse_ite_cases": c_reverse_ite_cases, "chop": c_chop, "get_bytes": c_get_bytes,
}


def replay(case):
    return check_case(case)[0]


# ------------------------------------------------------------------------------------------------ generators


@st.composite
def ite_heavy(draw, cfg, n=None, depth=3):
    """BV tree with If weighted up: nested, shared and negated conditions, If under arithmetic and comparisons."""
    if n is None:
        n = draw(st.sampled_from(cfg["widths"]))
    conds = [draw(gen.bool_tree(1, cfg)) for _ in range(2)]
    conds.append(("not", conds[0]))
    # conditions that compare the SAME operands with other comparison operators (x < k next to x > k, x <= k, x == k ...):
    # utilities that merge Ifs with "the negated condition" must not take a merely related one for it
    for c in list(conds[:2]):
        if c[0] in ir.BV_CMP:
            for _ in range(2):
                conds.append((draw(st.sampled_from(ir.BV_CMP)), c[1], c[2]))

    def rec(d):
        if d <= 0:
            return draw(st.one_of(gen.bv_vars(n, cfg.get("nvars", 2)), gen.consts(n)))
        k = draw(st.integers(0, 11))
        if k >= 10 and len(conds) > 3:
            # sibling Ifs under one operator with related conditions
            c1 = draw(st.sampled_from(conds))
            c2 = draw(st.sampled_from(conds[3:]))
            return (draw(st.sampled_from(("bvadd", "bvsub", "bvand", "bvxor", "bvor"))), ("ite", c1, rec(d - 1), rec(d - 1)), ("ite", c2, rec(d - 1), rec(d - 1)))
        if k < 5:
            return ("ite", draw(st.sampled_from(conds)), rec(d - 1), rec(d - 1))
        if k < 8:
            return (draw(st.sampled_from(("bvadd", "bvsub", "bvand", "bvxor", "bvor", "bvmul"))), rec(d - 1), rec(d - 1))
        if k == 8:
            return (draw(st.sampled_from(("bvnot", "bvneg"))), rec(d - 1))
        if k == 9:
            # an If whose branches apply the same operator: to three or more operands (claripy flattens a+b+e) of which one or
            # none is shared, or to different slices of one value -- where burrowing has to tell "one difference" from "two"
            c = draw(st.sampled_from(conds))
            leafs = lambda: draw(st.one_of(gen.bv_vars(n, cfg.get("nvars", 2)), gen.consts(n), gen.bv_vars(n, 3)))  # noqa: E731
            j = draw(st.integers(0, 2))
            if j <= 1:
                op = draw(st.sampled_from(("bvadd", "bvand", "bvor", "bvxor", "bvmul")))
                shared = leafs()
                l1 = [leafs(), leafs(), shared]
                l2 = [leafs(), leafs() if j else l1[1], shared]
                if draw(st.booleans()):
                    l1, l2 = l1[::-1], l2[::-1]
                return ("ite", c, (op, (op, l1[0], l1[1]), l1[2]), (op, (op, l2[0], l2[1]), l2[2]))
            big = min(n * 2, 64)
            if big > n:
                src = draw(gen.bv_vars(big, 2))
                lo1, lo2 = draw(st.integers(0, big - n)), draw(st.integers(0, big - n))
                return ("ite", c, ("extract", lo1 + n - 1, lo1, src), ("extract", lo2 + n - 1, lo2, src))
        return draw(gen.bv_tree(n, 1, cfg))

    return rec(depth)


@st.composite
def ite_heavy_any(draw, cfg):
    t = draw(ite_heavy(cfg))
    k = draw(st.integers(0, 3))
    if k == 0:
        n = ir.width(t)
        return (draw(st.sampled_from(ir.BV_CMP)), t, draw(st.one_of(gen.consts(n), ite_heavy(cfg, n, 1))))
    return t


def _cases_for(util, tier):
    cfg = gen.cfg_for(tier, widths=(1, 2, 3, 4, 8, 16, 32, 64), nvars=2)
    small = gen.cfg_for(tier, small=True)
    spell = st.integers(0, 2**16)
    anyt = st.one_of(gen.any_tree(cfg, 3), gen.template(cfg), ite_heavy_any(cfg), gen.any_tree(small, 4), ite_heavy_any(small))

    @st.composite
    def rl(draw):
        t = draw(anyt)
        vs = sorted(ir.variables(t).items())
        if not vs:
            t = ("bvadd", t, ("var", f"v0_{ir.width(t)}", ir.width(t))) if not ir.is_bool(t) else ("and", t, ("bvar", "p0"))
            vs = sorted(ir.variables(t).items())
        name, w = draw(st.sampled_from(vs))
        c = {**cfg, "widths": (w or 1,)}
        new = draw(gen.bool_tree(1, c)) if w == 0 else draw(gen.bv_tree(w, 2, c))
        return {"util": "replace_leaf", "tree": t, "var": name, "new": new, "free_fn": draw(st.booleans()), "spell": draw(spell)}

    @st.composite
    def rs(draw):
        t = draw(anyt)
        subs = [s for s in ir.subtrees(t) if ir.n_ops(s) >= 1 and s is not t]
        pick = draw(st.integers(0, 30))
        if subs:
            old = subs[pick % len(subs)]
            c = dict(cfg)
            new = draw(gen.bool_tree(1, c)) if ir.is_bool(old) else draw(gen.bv_tree(ir.width(old), 1, c))
        else:
            new = ("bconst", True)
        return {"util": "replace_subtree", "tree": t, "pick": pick, "new": new, "spell": draw(spell)}

    @st.composite
    def rd(draw):
        t = draw(anyt)
        mapping = {}
        for name, w in sorted(ir.variables(t).items()):
            if draw(st.integers(0, 3)):
                c = dict(cfg)
                mapping[name] = draw(gen.bool_tree(1, c)) if w == 0 else draw(st.one_of(gen.bv_tree(w, 1, c), gen.bv_vars(w, 3)))
        return {"util": "replace_dict", "tree": t, "mapping": mapping, "spell": draw(spell)}

    @st.composite
    def idn(draw):
        a = draw(anyt)
        k = draw(st.integers(0, 3))
        if k == 0:
            b = a
        elif k == 1:  # rename variables consistently
            ren = {name: (("bvar", "p1" if name == "p0" else "p0") if w == 0 else ("var", f"v{(int(name[1]) + 1) % 3}_{w}", w)) for name, w in ir.variables(a).items() if name[0] in "vp"}
            b = _subst(a, ren)
        elif k == 2:  # perturb one constant / operator
            subs = [s for s in ir.subtrees(a) if s[0] == "const"]
            if subs:
                s0 = subs[draw(st.integers(0, len(subs) - 1))]
                b = _replace_first(a, s0, ("const", (s0[1] + draw(st.sampled_from((1, 2, -1)))) & ((1 << s0[2]) - 1), s0[2]))
            else:
                b = ("not", a) if ir.is_bool(a) else ("bvadd", a, ("const", 1, ir.width(a)))
        else:
            b = draw(anyt)
        return {"util": "identical", "a": a, "b": b, "spell": draw(spell)}

    @st.composite
    def icases(draw):
        n = draw(st.sampled_from((1, 2, 3, 4, 8, 32)))
        c = {**cfg, "widths": (n,)}
        conds = [draw(st.one_of(gen.bool_tree(1, c), st.just(("bconst", True)), st.just(("bconst", False)))) for _ in range(draw(st.integers(0, 5)))]
        vals = [draw(st.one_of(gen.consts(n), gen.bv_vars(n, 2), gen.bv_tree(n, 1, c))) for _ in conds]
        default = draw(st.one_of(gen.consts(n), gen.bv_vars(n, 2)))
        if vals and draw(st.booleans()):
            vals[draw(st.integers(0, len(vals) - 1))] = default  # a case yielding the default value
        if len(conds) >= 2 and draw(st.booleans()):
            conds[1] = conds[0]  # overlapping / duplicate conditions
        return {"util": "ite_cases", "cases": list(zip(conds, vals, strict=True)), "default": default, "spell": draw(spell)}

    @st.composite
    def idict(draw):
        n = draw(st.sampled_from((1, 2, 3, 4, 8, 32)))
        vn = draw(st.sampled_from((1, 8)))
        c = {**cfg, "widths": (n,)}
        idx = draw(st.one_of(gen.bv_vars(n, 1), gen.bv_tree(n, 1, c)))
        m = (1 << n) - 1
        keys = draw(st.lists(st.sampled_from(sorted({0, 1, 2 & m, 3 & m, m, m - 1, 1 << (n - 1), (1 << (n - 1)) - 1, 5 & m, 6 & m, 7 & m, 100 & m})), min_size=0, max_size=9, unique=True))
        if draw(st.integers(0, 2)) == 0:
            # keys written as negative integers (x == -1 is ordinary claripy usage): same bit pattern, other Python order
            keys = [(k - (1 << n)) if (k >> (n - 1)) and draw(st.booleans()) else k for k in keys]
        table = [(k, draw(st.one_of(gen.consts(vn), gen.bv_vars(vn, 2)))) for k in keys]
        if table and draw(st.integers(0, 3)) == 0:
            # the same key written again out of range (k + 2^n, k - 2^n ...), with the same value so that the meaning stays unambiguous
            k0, v0 = table[draw(st.integers(0, len(table) - 1))]
            for j in range(draw(st.integers(1, 4))):
                table.append((k0 + (j + 1) * (1 << n) * draw(st.sampled_from((1, -1))), v0))
        return {"util": "ite_dict", "index": idx, "table": table, "default": draw(gen.consts(vn)), "spell": draw(spell)}

    @st.composite
    def chop(draw):
        n = draw(st.sampled_from((1, 2, 4, 6, 8, 12, 16, 24, 32, 64)))
        bits = draw(st.sampled_from([d for d in range(1, n + 1) if n % d == 0]))
        return {"util": "chop", "tree": draw(st.one_of(gen.bv_tree(n, 2, {**cfg, "widths": (n,)}), gen.bv_vars(n, 1), gen.consts(n))), "bits": bits, "spell": draw(spell)}

    @st.composite
    def gb(draw):
        n = draw(st.sampled_from((1, 2, 7, 8, 9, 10, 15, 16, 17, 24, 31, 32, 33, 64)))
        nb = (n + 7) // 8
        index = draw(st.integers(0, nb - 1))
        size = draw(st.integers(1, nb - index))
        return {"util": "get_bytes", "tree": draw(st.one_of(gen.bv_tree(n, 2, {**cfg, "widths": (n,)}), gen.bv_vars(n, 1), gen.consts(n))),
                "index": index, "size": size, "single": draw(st.booleans()), "spell": draw(spell)}

    @st.composite
    def canon(draw):
        out = {"util": "canonicalize", "tree": draw(anyt), "spell": draw(spell)}
        if draw(st.booleans()):
            out["tree2"] = draw(anyt)
        return out

    @st.composite
    def same_op_branches(draw):
        """If(c, op(...), op(...)) with the same operator in both branches over three or four distinct variables per branch, sharing
        zero, one or two operands position by position; optionally below a comparison."""
        n = draw(st.sampled_from((2, 3, 4, 8)))
        pool = [("var", f"v{i}_{n}", n) for i in range(6)]
        op = draw(st.sampled_from(("bvadd", "bvand", "bvor", "bvxor", "bvmul")))
        k = draw(st.integers(3, 4))
        left = list(draw(st.permutations(pool)))[:k]
        right = list(left)
        for i in draw(st.sets(st.integers(0, k - 1), min_size=1, max_size=k)):
            right[i] = draw(st.sampled_from([p_ for p_ in pool if p_ not in left] + [left[(i + 1) % k]]))

        def chain(xs):
            t = xs[0]
            for x_ in xs[1:]:
                t = (op, t, x_)
            return t

        c = (draw(st.sampled_from(ir.BV_CMP)), pool[0], draw(gen.consts(n)))
        t = ("ite", c, chain(left), chain(right))
        j = draw(st.integers(0, 2))
        if j == 1:
            t = (draw(st.sampled_from(ir.BV_CMP)), t, draw(gen.consts(n)))
        elif j == 2:
            t = ("bvadd", t, pool[5])
        return t

    simple_anyt = st.one_of(ite_heavy_any(cfg), ite_heavy_any(small), anyt)
    simple = lambda u: st.tuples(st.one_of(simple_anyt, simple_anyt, same_op_branches()) if u == "burrow" else simple_anyt, spell).map(lambda v: {"util": u, "tree": v[0], "spell": v[1]})  # noqa: E731
    _old_simple = lambda u: st.tuples(st.one_of(ite_heavy_any(cfg), ite_heavy_any(small), anyt), spell).map(lambda v: {"util": u, "tree": v[0], "spell": v[1]})  # noqa: E731
    return {
        "replace_leaf": rl(), "replace_subtree": rs(), "replace_dict": rd(), "canonicalize": canon(), "identical": idn(),
        "excavate": simple("excavate"), "burrow": simple("burrow"), "ite_cases": icases(), "ite_dict": idict(),
        "reverse_ite_cases": simple("reverse_ite_cases"), "chop": chop(), "get_bytes": gb(),
    }[util]


def _replace_first(t, old, new):
    if t == old:
        return new
    ch = list(ir.children(t))
    for i, c in enumerate(ch):
        c2 = _replace_first(c, old, new)
        if c2 is not c:
            ch[i] = c2
            return ir.with_children(t, ch)
    return t


def run_shard(shard, ctx):
    sem_z3.set_timeout(2000 if ctx.tier == "quick" else 10000)

    def body(case):
        exprcheck.reset_caches()
        try:
            fails, info = check_case(case)
        except Exception as e:  # noqa: BLE001 - a utility raising on well-formed input
            if isinstance(e, (AssertionError, KeyError, RecursionError, TypeError, AttributeError, claripy.errors.ClaripyError)) and "/claripy/" in (exprcheck.exc_fingerprint(e)):
                fails, info = [(f"{case['util']}:raises:{exprcheck.exc_fingerprint(e)}", {"exc": repr(e)[:200]})], {"classes": [], "nontrivial": True}
            else:
                raise
        sample = {k: (ir.pretty(ir.T(v)) if isinstance(v, (list, tuple)) and v and isinstance(v[0], str) else v) for k, v in case.items() if k not in ("cases", "table", "mapping", "tree2")}
        ctx.case(case, info["nontrivial"], info["classes"], sample=sample)
        seen = set()
        for fp, obs in fails:
            if fp not in seen:
                seen.add(fp)
                ctx.fail(fp, case, obs)

    hyp.run(_cases_for(shard["util"], ctx.tier), shard["n"], shard["hseed"], body, ctx)


KNOWN_PREDICATES = {}
