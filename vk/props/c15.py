"""C15 -- merge, combine and split have exactly their documented meaning."""

from __future__ import annotations

from . import _solverprop as sp

ID = "C15"
LEVEL = "exploration"
RULE = (
    "Solver histories in which 2-3 solvers are first built by independent random sub-histories (branched from a common ancestor or "
    "unrelated; often queried first so that model caches are populated) and then merged (with and without a common ancestor, with "
    "overlapping / true / false conditions), combined or split, on Solver, SolverCacheless, SolverComposite, SolverHybrid and "
    "SolverReplacement; the result is itself queried afterwards. Directed families: split of one solver whose variable groups "
    "are linked by later conjuncts through variables the other members do not mention (a-b, c-d, then b-c; generated add order and "
    "batching), and three solvers that share history pairwise but not all together (s1 branched from s0 after s0 moved on, s2 from the "
    "root) merged / combined with any receiver. Oracle, on brute-force model sets over 2^17 assignments: merge "
    "without ancestor = union_i(cond_i & M_i); with ancestor = M_anc & (cond_0 | cond_1 | ...); combine = intersection of all; split: "
    "the parts' constraint groups share no variables and the intersection of the parts' model sets equals the solver's model set; "
    "every later answer of the result is checked against the computed set. Operands are distinct solvers of one class. Non-trivial: an "
    "algebra operation whose operands have different model sets, at least one of them queried before; distinct by SHA-1 of the history."
)
ASSUMPTIONS = ["NotImplementedError from a class that does not implement an operation is not a violation",
               "'every conjunct exactly once' is checked as model-set equivalence (children may hold simplified forms of the parent's conjuncts)"]
BUDGET_S = {"quick": 240, "thorough": 3000}
CONFIGS = [{"frontend": f} for f in ("Solver", "SolverCacheless", "SolverComposite", "SolverHybrid", "SolverReplacement", "SolverComposite-track")]
GROUPS = ("core", "branch", "algebra", "algebra-heavy")
OWN = ("merge", "combine", "split", "blank_copy")


def shards(tier, seed):
    return sp.shards_for(tier, seed, 1500, CONFIGS, 200, 4000, per_quick=3, per_thorough=4)


def nontrivial(res):
    return bool(res.stats.get("algebra")) and res.stats.get("queries", 0) >= 1 and res.stats.get("adds", 0) >= 1


def run_shard(shard, ctx):
    sp.run_random(shard, ctx, GROUPS, nontrivial)


replay = sp.replay
shrink = sp.shrink
KNOWN_PREDICATES = {}


# ---- a directed scenario generator on top of the random histories: build 2-3 solvers (branches of a common ancestor or
# unrelated blank copies), give each its own constraints and a query (so that model caches are populated), apply one algebra
# operation, then query the result.
from hypothesis import strategies as st  # noqa: E402

from .. import exprcheck, hyp, ir, solver_machine as sm  # noqa: E402


@st.composite
def scenarios(draw):
    names = sm.BVVARS
    hist = []
    for _ in range(draw(st.integers(0, 2))):
        hist.append({"op": "add", "s": 0, "cs": [draw(sm.constraints(names[:2]))], "as_list": False})
    k = draw(st.integers(2, 3))
    related = draw(st.booleans())
    for _ in range(k - 1):
        hist.append({"op": "branch" if related else "blank_copy", "s": 0})
    # variable sets per solver: arranged so that two of the "others" often share a variable the receiver does not mention
    plans = draw(st.sampled_from([(("a",), ("b", "c"), ("c", "d")), (("a", "b"), ("c",), ("c", "d")), (("a",), ("a", "b"), ("c",)), (("a", "b"), ("b", "c"), ("d",)), (("a",), ("b",), ("c",))]))
    for j in range(k):
        for _ in range(draw(st.integers(1, 2))):
            hist.append({"op": "add", "s": j, "cs": [draw(sm.constraints(plans[j]))], "as_list": draw(st.booleans())})
        if draw(st.integers(0, 3)):
            q = draw(st.sampled_from(("sat", "eval", "min", "max")))
            stp = {"op": q, "s": j, "extra": []}
            if q == "eval":
                stp.update(e=("var", plans[j][0], sm.W), n=draw(st.sampled_from((1, 2, 17))))
            elif q in ("min", "max"):
                stp.update(e=("var", plans[j][0], sm.W), signed=draw(st.booleans()))
            hist.append(stp)
    opk = draw(st.sampled_from(("combine", "combine", "merge", "merge", "split")))
    recv = draw(st.integers(0, k - 1))
    others = [j for j in range(k) if j != recv]
    if opk == "combine":
        hist.append({"op": "combine", "s": recv, "others": others})
    elif opk == "merge":
        conds = [draw(st.one_of(sm.atoms(("d",)), sm.atoms(names), st.just(("bconst", True)), st.just(("bconst", False)))) for _ in range(3)]
        hist.append({"op": "merge", "s": recv, "others": others, "conds": conds, "ancestor": 0 if (related and draw(st.booleans())) else None})
    else:
        hist.append({"op": "split", "s": recv})
    res_idx = k  # the result is appended after the k initial solvers
    for _ in range(draw(st.integers(2, 5))):
        q = draw(st.sampled_from(("sat", "eval", "eval", "min", "max", "solution")))
        v = draw(st.sampled_from(names))
        stp = {"op": q, "s": res_idx, "extra": draw(sm.extras_strategy(names)) if draw(st.integers(0, 3)) == 0 else []}
        if q == "eval":
            stp.update(e=("var", v, sm.W), n=draw(st.sampled_from((2, 17, 300))))
        elif q in ("min", "max"):
            stp.update(e=("var", v, sm.W), signed=draw(st.booleans()))
        elif q == "solution":
            stp.update(e=("var", v, sm.W), v=draw(st.sampled_from(sm.CONSTS)))
        hist.append(stp)
    return hist


@st.composite
def split_scenarios(draw):
    """One solver whose conjuncts form variable groups that later conjuncts link -- transitively, and through variables that other
    members of the linked groups do not mention (a-b, c-d, then b-c) -- among single-variable and variable-free conjuncts, in a
    generated order; then split(), then queries on the parts."""
    a, b, c, d = [("var", n, sm.W) for n in draw(st.permutations(sm.BVVARS))]
    kc = lambda: ("const", draw(st.sampled_from(sm.CONSTS)), sm.W)  # noqa: E731
    rel = lambda u, v: (draw(st.sampled_from(("ult", "ule", "ne", "uge", "slt"))), u, v)  # noqa: E731
    pairs = [rel(a, b), rel(c, d)]
    links = draw(st.sampled_from(([rel(b, c)], [rel(a, d)], [rel(b, c), rel(a, d)], [], [("ule", ("bvadd", b, c), kc())], [("or", ("bvar", "p"), rel(b, c))])))
    singles = [(draw(st.sampled_from(("ule", "uge", "ne"))), draw(st.sampled_from((a, b, c, d))), kc()) for _ in range(draw(st.integers(0, 2)))]
    consts_ = [("bconst", True)] if draw(st.integers(0, 4)) == 0 else []
    order = draw(st.sampled_from(("pairs-first", "links-first", "shuffled")))
    if order == "pairs-first":
        cs = pairs + singles + links + consts_
    elif order == "links-first":
        cs = links + pairs + singles + consts_
    else:
        cs = list(draw(st.permutations(pairs + links + singles + consts_)))
    hist = []
    i = 0
    while i < len(cs):
        k = draw(st.integers(1, 3))
        hist.append({"op": "add", "s": 0, "cs": cs[i : i + k], "as_list": True})
        i += k
        if draw(st.integers(0, 3)) == 0:
            hist.append(draw(st.sampled_from(({"op": "sat", "s": 0, "extra": []}, {"op": "eval", "s": 0, "e": a, "n": 2, "extra": []}))))
    hist.append({"op": "split", "s": 0})
    for t in range(1, 5):
        hist.append({"op": "sat", "s": t, "extra": []})
        hist.append({"op": "eval", "s": t, "e": draw(st.sampled_from((a, b, c, d))), "n": 300, "extra": []})
    return hist


@st.composite
def chain_merge_scenarios(draw):
    """Solvers that share part of their history pairwise but not all together: s1 is branched from s0 after s0 has moved on from the
    root, s2 from the root itself; each then gets constraints of its own (on a variable the shared part already constrains, and on
    fresh ones); then a three-way merge / combine with any of them as the receiver, with and without the root as common ancestor."""
    w, x, y, z = [("var", n, sm.W) for n in draw(st.permutations(sm.BVVARS))]
    kc = lambda: ("const", draw(st.sampled_from(sm.CONSTS)), sm.W)  # noqa: E731
    cmpc = lambda v: (draw(st.sampled_from(("ule", "ult", "uge", "ugt", "ne", "eq"))), v, kc())  # noqa: E731
    hist = [{"op": "add", "s": 0, "cs": [cmpc(w)], "as_list": False}]
    if draw(st.booleans()):
        hist.append({"op": "sat", "s": 0, "extra": []})
    hist.append({"op": "branch", "s": 0})  # live 1: stays at the root for now
    hist.append({"op": "add", "s": 0, "cs": [cmpc(x)], "as_list": False})
    if draw(st.booleans()):
        hist.append({"op": "eval", "s": 0, "e": x, "n": draw(st.sampled_from((1, 300))), "extra": []})
    hist.append({"op": "branch", "s": 0})  # live 2: shares w- and x-constraints with live 0
    hist.append({"op": "add", "s": 2, "cs": [draw(st.sampled_from((cmpc(z), cmpc(x), ("eq", z, kc()))))], "as_list": False})
    hist.append({"op": "add", "s": 1, "cs": [draw(st.sampled_from((cmpc(x), ("uge", x, kc()))))], "as_list": False})
    if draw(st.booleans()):
        hist.append({"op": "add", "s": 1, "cs": [cmpc(y)], "as_list": False})
    if draw(st.integers(0, 2)) == 0:
        hist.append({"op": "add", "s": 0, "cs": [draw(st.sampled_from((cmpc(y), cmpc(x))))], "as_list": False})
    for j in range(3):
        if draw(st.integers(0, 2)) == 0:
            hist.append({"op": "sat", "s": j, "extra": []})
    recv = draw(st.integers(0, 2))
    others = list(draw(st.permutations([j for j in range(3) if j != recv])))
    if draw(st.integers(0, 3)):
        sel = draw(st.sampled_from((w, x, y, z)))
        conds = draw(st.sampled_from(([("eq", sel, ("const", 0, sm.W)), ("eq", sel, ("const", 1, sm.W)), ("eq", sel, ("const", 2, sm.W))],
                                      [("bconst", True), ("bconst", True), ("bconst", True)], [("bconst", True), ("bconst", False), ("ule", sel, kc())],
                                      [("ult", sel, kc()), ("uge", sel, kc()), ("bconst", True)])))
        hist.append({"op": "merge", "s": recv, "others": others, "conds": conds, "ancestor": draw(st.sampled_from((None, None, 1)))})
    else:
        hist.append({"op": "combine", "s": recv, "others": others})
    for _ in range(draw(st.integers(3, 6))):
        q = draw(st.sampled_from(("sat", "eval", "eval", "batch", "min")))
        v = draw(st.sampled_from((w, x, y, z)))
        stp = {"op": q, "s": 3, "extra": []}
        if q == "eval":
            stp.update(e=v, n=300)
        elif q == "batch":
            stp.update(es=[x, v], n=300)
        elif q == "min":
            stp.update(e=v, signed=False)
        hist.append(stp)
    return hist


def run_shard(shard, ctx):  # noqa: F811 - replaces the purely random driver above
    if shard["i"] % 2 == 0:
        sp.run_random(shard, ctx, GROUPS, nontrivial)
        return

    def body(hist):
        exprcheck.reset_caches()
        case = {"frontend": shard["frontend"], "reuse": False, "history": hist}
        res = sp.run_case(case)
        sp.record(ctx, case, res, nontrivial(res), None, ["mode:scenario"])

    hyp.run(st.one_of(scenarios(), scenarios(), split_scenarios(), chain_merge_scenarios()), shard["n"], shard["hseed"], body, ctx)
