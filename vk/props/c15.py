"""C15 -- merge, combine and split have exactly their documented meaning."""

from __future__ import annotations

from . import _solverprop as sp

ID = "C15"
LEVEL = "exploration"
RULE = (
    "Solver histories in which 2-3 solvers are first built by independent random sub-histories (branched from a common ancestor or "
    "unrelated; often queried first so that model caches are populated) and then merged (with and without a common ancestor, with "
    "overlapping / true / false conditions), combined or split, on Solver, SolverCacheless, SolverComposite, SolverHybrid and "
    "SolverReplacement; the result is itself queried afterwards. Oracle, on brute-force model sets over 2^17 assignments: merge "
    "without ancestor = union_i(cond_i & M_i); with ancestor = M_anc & (cond_0 | cond_1 | ...); combine = intersection of all; split: "
    "the parts' constraint groups share no variables and the intersection of the parts' model sets equals the solver's model set; "
    "every later answer of the result is checked against the computed set. Operands are distinct solvers of one class. Non-trivial: an "
    "algebra operation whose operands have different model sets, at least one of them queried before; distinct by SHA-1 of the history."
)
ASSUMPTIONS = ["NotImplementedError from a class that does not implement an operation is not a violation",
               "'every conjunct exactly once' is checked as model-set equivalence (children may hold simplified forms of the parent's conjuncts)"]
BUDGET_S = {"quick": 240, "thorough": 3000}
CONFIGS = [{"frontend": f} for f in ("Solver", "SolverCacheless", "SolverComposite", "SolverHybrid", "SolverReplacement", "SolverComposite-track")]
GROUPS = ("core", "branch", "algebra", "algebra-heavy")
OWN = ("merge", "combine", "split", "blank_copy")


def shards(tier, seed):
    return sp.shards_for(tier, seed, 1500, CONFIGS, 200, 4000, per_quick=3, per_thorough=4)


def nontrivial(res):
    return bool(res.stats.get("algebra")) and res.stats.get("queries", 0) >= 1 and res.stats.get("adds", 0) >= 1


def run_shard(shard, ctx):
    sp.run_random(shard, ctx, GROUPS, nontrivial)


replay = sp.replay
shrink = sp.shrink
KNOWN_PREDICATES = {}


# ---- a directed scenario generator on top of the random histories: build 2-3 solvers (branches of a common ancestor or
# unrelated blank copies), give each its own constraints and a query (so that model caches are populated), apply one algebra
# operation, then query the result.
from hypothesis import strategies as st  # noqa: E402

from .. import exprcheck, hyp, ir, solver_machine as sm  # noqa: E402


@st.composite
def scenarios(draw):
    names = sm.BVVARS
    hist = []
    for _ in range(draw(st.integers(0, 2))):
        hist.append({"op": "add", "s": 0, "cs": [draw(sm.constraints(names[:2]))], "as_list": False})
    k = draw(st.integers(2, 3))
    related = draw(st.booleans())
    for _ in range(k - 1):
        hist.append({"op": "branch" if related else "blank_copy", "s": 0})
    # variable sets per solver: arranged so that two of the "others" often share a variable the receiver does not mention
    plans = draw(st.sampled_from([(("a",), ("b", "c"), ("c", "d")), (("a", "b"), ("c",), ("c", "d")), (("a",), ("a", "b"), ("c",)), (("a", "b"), ("b", "c"), ("d",)), (("a",), ("b",), ("c",))]))
    for j in range(k):
        for _ in range(draw(st.integers(1, 2))):
            hist.append({"op": "add", "s": j, "cs": [draw(sm.constraints(plans[j]))], "as_list": draw(st.booleans())})
        if draw(st.integers(0, 3)):
            q = draw(st.sampled_from(("sat", "eval", "min", "max")))
            stp = {"op": q, "s": j, "extra": []}
            if q == "eval":
                stp.update(e=("var", plans[j][0], sm.W), n=draw(st.sampled_from((1, 2, 17))))
            elif q in ("min", "max"):
                stp.update(e=("var", plans[j][0], sm.W), signed=draw(st.booleans()))
            hist.append(stp)
    opk = draw(st.sampled_from(("combine", "combine", "merge", "merge", "split")))
    recv = draw(st.integers(0, k - 1))
    others = [j for j in range(k) if j != recv]
    if opk == "combine":
        hist.append({"op": "combine", "s": recv, "others": others})
    elif opk == "merge":
        conds = [draw(st.one_of(sm.atoms(("d",)), sm.atoms(names), st.just(("bconst", True)), st.just(("bconst", False)))) for _ in range(3)]
        hist.append({"op": "merge", "s": recv, "others": others, "conds": conds, "ancestor": 0 if (related and draw(st.booleans())) else None})
    else:
        hist.append({"op": "split", "s": recv})
    res_idx = k  # the result is appended after the k initial solvers
    for _ in range(draw(st.integers(2, 5))):
        q = draw(st.sampled_from(("sat", "eval", "eval", "min", "max", "solution")))
        v = draw(st.sampled_from(names))
        stp = {"op": q, "s": res_idx, "extra": draw(sm.extras_strategy(names)) if draw(st.integers(0, 3)) == 0 else []}
        if q == "eval":
            stp.update(e=("var", v, sm.W), n=draw(st.sampled_from((2, 17, 300))))
        elif q in ("min", "max"):
            stp.update(e=("var", v, sm.W), signed=draw(st.booleans()))
        elif q == "solution":
            stp.update(e=("var", v, sm.W), v=draw(st.sampled_from(sm.CONSTS)))
        hist.append(stp)
    return hist


def run_shard(shard, ctx):  # noqa: F811 - replaces the purely random driver above
    if shard["i"] % 2 == 0:
        sp.run_random(shard, ctx, GROUPS, nontrivial)
        return

    def body(hist):
        exprcheck.reset_caches()
        case = {"frontend": shard["frontend"], "reuse": False, "history": hist}
        res = sp.run_case(case)
        sp.record(ctx, case, res, nontrivial(res), None, ["mode:scenario"])

    hyp.run(scenarios(), shard["n"], shard["hseed"], body, ctx)
