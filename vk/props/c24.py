"""C24 -- VSA evaluation of expressions over annotated variables over-approximates."""

from __future__ import annotations

import claripy
import numpy as np
from hypothesis import strategies as st

from .. import build_claripy, exprcheck, hyp, ir, sem_np, shrink as shrinker, si_gamma as sg

ID = "C24"
LEVEL = "exploration"
RULE = (
    "Cases are BV/Bool operation trees (depth <= 4) over 1-3 variables of width 2-6, each variable either unannotated (TOP) or built "
    "with claripy.SI(bits, stride, lb, ub) with the interval drawn from ALL canonical strided intervals of that width (wrapping and "
    "odd-stride forms included); operations restricted to what BackendVSA implements: + - * with intervals, / % by non-zero constants, "
    "& | ^ ~ unary-, << >> LShR by constants and by variables, Extract, Concat, ZeroExt, SignExt, the ten comparisons, And/Or/Not, If "
    "(incl. nested under arithmetic and comparisons, decidable and undecidable conditions), union / intersection / widen of two "
    "sub-expressions. Oracle: ALL assignments with every variable inside its interval are enumerated (numpy); every concrete value of "
    "the expression (independent evaluator) must be a member of gamma(backends.vsa.convert(expr)) (SI: member set from bits/stride/"
    "bounds; BoolResult: truth values; IfProxy / DSIS by their parts); SolverVSA with generated constraints: eval(e,n) returning fewer "
    "than n values must list every feasible value, min <= least and max >= greatest feasible value (signed and unsigned), satisfiable "
    "True whenever a model exists, solution(e,v) True for feasible v. BackendError / ClaripyFrontendError (declining) is allowed. "
    "Non-trivial: >= 2 operators, some variable annotated with a non-singleton non-TOP interval and > 1 concrete value; distinct by "
    "SHA-1 of (tree, intervals)."
)
ASSUMPTIONS = [
    "division/remainder only by non-zero constants (division by zero is exempt and would need per-assignment exemptions)",
    "union/intersection/widen nodes are read as: union = either operand's value, intersection = values both can take (checked only when the operands are equal expressions), widen = at least both operands",
]
BUDGET_S = {"quick": 220, "thorough": 2400}

SETOPS = ("union", "intersection", "widen")


def _strip(t):
    """The tree without annotations (for the reference evaluators) and the {var: (stride, lb, ub)} map."""
    anns = {}

    def walk(x):
        if not isinstance(x, tuple):
            return x
        if x[0] == "anno":
            anns[x[2][1]] = tuple(x[1])
            return x[2]
        return tuple(walk(c) for c in x)

    return walk(ir.T(t)), anns


def _anno_factory(spec):
    s, lb, ub = spec
    return claripy.annotation.StridedIntervalAnnotation(s, lb, ub)


def build(t):
    build_claripy.ANNO_FACTORY = _anno_factory
    return _build_setops(ir.T(t))


def _build_setops(t):
    """build_claripy knows nothing about union/intersection/widen; they are realised here."""
    if isinstance(t, tuple) and t[0] in SETOPS:
        a, b = _build_setops(t[1]), _build_setops(t[2])
        return getattr(a, t[0])(b)
    if isinstance(t, tuple) and any(isinstance(c, tuple) and _has_setop(c) for c in t[1:]):
        # rebuild this node around already-built children: only shapes the generator produces (binary bv ops / compare)
        op = t[0]
        kids = [_build_setops(c) if isinstance(c, tuple) else c for c in t[1:]]
        if op in build_claripy._PYOP:
            return build_claripy._PYOP[op](kids[0], kids[1])
        if op in build_claripy._CMPFUN:
            return build_claripy._CMPFUN[op][1](kids[0], kids[1])
        if op == "eq":
            return kids[0] == kids[1]
        if op == "ne":
            return kids[0] != kids[1]
        raise ValueError(f"set operation under unsupported node {op}")
    return build_claripy.build(t)


def _all_vars(t, acc=None):
    acc = {} if acc is None else acc
    if isinstance(t, tuple):
        if t[0] == "var":
            acc[t[1]] = t[2]
        elif t[0] == "bvar":
            acc[t[1]] = 0
        else:
            for c in t[1:]:
                _all_vars(c, acc)
    return acc


def _has_setop(t):
    return isinstance(t, tuple) and (t[0] in SETOPS or any(_has_setop(c) for c in t[1:] if isinstance(c, tuple)))


def concrete_values(tree, anns, sp, constraints=()):
    """-> (sorted unique concrete values, mask of admissible assignments).  Set operations: union -> values of either side."""
    M = sp.full()
    for name, (s, lb, ub) in anns.items():
        off, w = sp.offsets[name]
        mem = sg.mask_of(w, s, lb, ub)
        table = np.array([(mem >> v) & 1 for v in range(1 << w)], dtype=bool)
        M = M & table[sp.env[name].astype(np.int64)]
    for c in constraints:
        M = M & sp.ev(_strip(c)[0])
    return M


def _alternatives(t):
    """The plain trees a tree with set operations stands for: union / widen = either operand, intersection(A, A) = A.
    Each alternative is evaluated per assignment, so values stay correlated with the rest of the expression (taking all
    combinations of the operand's value set and the sibling's value set would invent values that cannot occur together)."""
    if not isinstance(t, tuple):
        return [t]
    if t[0] in SETOPS:
        if t[0] == "intersection":
            return _alternatives(t[1])
        return _alternatives(t[1]) + _alternatives(t[2])
    if not _has_setop(t):
        return [t]
    outs = [[]]
    for c in t[1:]:
        alts = _alternatives(c) if isinstance(c, tuple) else [c]
        outs = [o + [a] for o in outs for a in alts]
    return [(t[0], *o) for o in outs]


def _ev_sets(t, sp, M):
    """Set of concrete values of t over the admissible assignments."""
    out = set()
    for alt in _alternatives(t):
        out |= set(np.unique(sp.ev(alt)[M]).tolist())
    return out


def _plain(t):
    """A representative plain tree for width computation under set operations."""
    if isinstance(t, tuple) and t[0] in SETOPS:
        return _plain(t[1])
    if isinstance(t, tuple):
        return tuple(_plain(c) if isinstance(c, tuple) else c for c in t)
    return t


def gamma_of(r):
    """-> ('bool', set) | ('bv', bits, mask) | None (unknown abstract type)"""
    from claripy.backends.backend_vsa.bool_result import BoolResult
    from claripy.backends.backend_vsa.discrete_strided_interval_set import DiscreteStridedIntervalSet
    from claripy.backends.backend_vsa.strided_interval import StridedInterval

    if isinstance(r, BoolResult):
        return ("bool", set(bool(v) for v in r.value))
    if isinstance(r, bool):
        return ("bool", {r})
    if isinstance(r, StridedInterval):
        return ("bv", r.bits, sg.gamma_mask(r))
    if isinstance(r, DiscreteStridedIntervalSet):
        m = 0
        for si in r._si_set:
            m |= sg.gamma_mask(si)
        return ("bv", r.bits, m)
    return None


def check_case(case):
    tree_a = ir.T(case["tree"])
    tree, anns = _strip(tree_a)
    info = {"classes": [], "nontrivial": False}
    fails = []
    plain = _plain(tree)
    vs = _all_vars(tree)
    for c in case.get("constraints", []):
        ct, ca = _strip(c)
        vs.update(ir.variables(ct))
        for k_, v_ in ca.items():
            anns.setdefault(k_, v_)
    sp = sem_np.Space(sorted(vs.items()))
    if sp.bits > 18:
        info["classes"].append("too-wide")
        return [], info
    M = concrete_values(tree, anns, sp)
    if not M.any():
        info["classes"].append("empty-domain")
        return [], info
    try:
        C = _ev_sets(tree, sp, M)
    except Exception as e:  # noqa: BLE001
        info["classes"].append("reference-exception:" + type(e).__name__)
        return [], info
    try:
        e = build(tree_a)
    except Exception as ex:  # noqa: BLE001 - construction problems are C04's
        info["classes"].append("build-exception:" + type(ex).__name__)
        return [], info
    is_bool = ir.is_bool(plain)
    info["classes"] += ["bool" if is_bool else f"bv{ir.width(plain)}", f"vars:{len(vs)}", f"annotated:{len(anns)}", f"top:{tree[0]}"]
    ann_nontriv = any(sg.classify(vs[n], a) not in ("singleton", "top") for n, a in anns.items())
    info["nontrivial"] = ir.n_ops(plain) >= 2 and ann_nontriv and len(C) > 1
    # ---- backend value
    try:
        r = claripy.backends.vsa.convert(e)
        g = gamma_of(r)
    except claripy.errors.BackendError:
        info["classes"].append("declined:BackendError")
        g = None
        r = None
    except Exception as ex:  # noqa: BLE001
        info["classes"].append("convert-exception:" + type(ex).__name__)
        info.setdefault("exceptions", []).append(exprcheck.exc_fingerprint(ex))
        g = None
        r = None
    if g is not None:
        if g[0] == "bool":
            missing = [v for v in C if bool(v) not in g[1]]
            if missing:
                fails.append((f"truth-value-missing:{_key(tree)}", {"tree": ir.pretty(plain), "intervals": anns, "result": sorted(g[1]), "missing": bool(missing[0])}))
        else:
            if not is_bool and g[1] != ir.width(plain):
                fails.append((f"wrong-width:{_key(tree)}", {"tree": ir.pretty(plain), "bits": g[1], "expected": ir.width(plain)}))
            else:
                missing = [v for v in C if not (g[2] >> int(v)) & 1]
                if missing:
                    fails.append((f"value-missing:{_key(tree)}", {"tree": ir.pretty(plain), "intervals": {k: list(v) for k, v in anns.items()}, "result": _desc(r), "missing": int(missing[0]), "n_values": len(C)}))
    elif r is not None:
        info["classes"].append("abstract-type:" + type(r).__name__)
    # ---- SolverVSA
    if not fails:
        fails += _frontend(case, tree, plain, anns, sp, e, is_bool, info)
    return fails, info


def _desc(r):
    try:
        return sg.describe(r)
    except Exception:  # noqa: BLE001
        return repr(r)[:80]


def _key(tree):
    def sk(t, d):
        if not isinstance(t, tuple) or t[0] in ("var", "const", "bvar", "bconst"):
            return t[0] if isinstance(t, tuple) else "p"
        if d == 0:
            return t[0]
        return t[0] + "(" + ",".join(sk(c, d - 1) for c in t[1:] if isinstance(c, tuple)) + ")"

    return sk(tree, 1)


def _frontend(case, tree, plain, anns, sp, e, is_bool, info):
    fails = []
    cons_t = [ir.T(c) for c in case.get("constraints", [])]
    if _has_setop(tree):
        return fails
    try:
        s = claripy.SolverVSA()
        cons = [build(c) for c in cons_t]
        s.add(cons)
    except Exception as ex:  # noqa: BLE001
        info["classes"].append("frontend-setup-exception:" + type(ex).__name__)
        return fails
    M = concrete_values(tree, anns, sp, cons_t)
    feasible = bool(M.any())
    key = _key(tree)
    try:
        sat = s.satisfiable()
        if feasible and not sat:
            fails.append((f"frontend:unsat-claimed:{key}", {"tree": ir.pretty(plain), "constraints": [ir.pretty(_strip(c)[0]) for c in cons_t]}))
            return fails
    except claripy.errors.ClaripyError:
        info["classes"].append("frontend-declined:satisfiable")
    if not feasible or is_bool:
        return fails
    vals = np.unique(sp.ev(plain)[M])
    n = ir.width(plain)
    sgn = lambda v: v - (1 << n) if v >> (n - 1) else v  # noqa: E731
    C = [int(v) for v in vals]
    try:
        for signed in (False, True):
            lo = min(C, key=sgn) if signed else min(C)
            hi = max(C, key=sgn) if signed else max(C)
            mn, mx = s.min(e, signed=signed), s.max(e, signed=signed)
            want_lo, want_hi = (sgn(lo), sgn(hi)) if signed else (lo, hi)
            if mn is None or mx is None or mn > want_lo or mx < want_hi:
                fails.append((f"frontend:min-max-excludes:{'signed' if signed else 'unsigned'}:{key}", {"tree": ir.pretty(plain), "min": mn, "max": mx, "least": want_lo, "greatest": want_hi,
                                                                                      "intervals": {k: list(v) for k, v in anns.items()}}))
                return fails
        k = len(C) + 2
        r = s.eval(e, k)
        if len(r) < k and not set(C) <= set(int(v) % (1 << n) for v in r):
            missing = sorted(set(C) - set(int(v) % (1 << n) for v in r))[0]
            fails.append((f"frontend:eval-excludes:{key}", {"tree": ir.pretty(plain), "returned": list(r)[:20], "missing": missing}))
            return fails
        v = C[len(C) // 2]
        if not s.solution(e, v):
            fails.append((f"frontend:solution-false-for-feasible:{key}", {"tree": ir.pretty(plain), "value": v}))
    except (claripy.errors.ClaripyFrontendError, claripy.errors.BackendError):
        info["classes"].append("frontend-declined")
    except Exception as ex:  # noqa: BLE001
        info["classes"].append("frontend-exception:" + type(ex).__name__)
        info.setdefault("exceptions", []).append(exprcheck.exc_fingerprint(ex))
    return fails


def replay(case):
    exprcheck.reset_caches(force=True)
    fails, _ = check_case(case)
    out = {}
    for fp, obs in fails:
        out.setdefault(fp, obs)
    return list(out.items())


# ------------------------------------------------------------------ generators


def _c(v, n):
    return ("const", v & ((1 << n) - 1), n)


@st.composite
def leaf(draw, n, names):
    k = draw(st.integers(0, 9))
    if k < 7:
        return draw(st.sampled_from(names[n]))
    return _c(draw(st.one_of(st.sampled_from((0, 1, (1 << n) - 1, 1 << (n - 1))), st.integers(0, (1 << n) - 1))), n)


@st.composite
def bv(draw, n, depth, names):
    if depth <= 0 or draw(st.integers(0, 9)) < 2:
        return draw(leaf(n, names))
    d = depth - 1
    k = draw(st.sampled_from(("bin", "bin", "bin", "shiftc", "shiftv", "divc", "un", "ext", "ext", "extract", "extract", "concat", "concat", "ite", "ite")))
    if k == "bin":
        return (draw(st.sampled_from(("bvadd", "bvsub", "bvmul", "bvand", "bvor", "bvxor"))), draw(bv(n, d, names)), draw(bv(n, d, names)))
    if k == "shiftc":
        return (draw(st.sampled_from(("bvshl", "bvlshr", "bvashr"))), draw(bv(n, d, names)), _c(draw(st.integers(0, n + 1)), n))
    if k == "shiftv":
        return (draw(st.sampled_from(("bvshl", "bvlshr", "bvashr"))), draw(bv(n, d, names)), draw(leaf(n, names)))
    if k == "divc":
        return (draw(st.sampled_from(("bvudiv", "bvurem"))), draw(bv(n, d, names)), _c(draw(st.integers(1, (1 << n) - 1)), n))
    if k == "un":
        return (draw(st.sampled_from(("bvnot", "bvneg"))), draw(bv(n, d, names)))
    if k == "ext" and n >= 3:
        m = draw(st.integers(1, n - 1))
        if (n - m) not in names:
            return draw(leaf(n, names))
        return (draw(st.sampled_from(("zext", "sext"))), m, draw(bv(n - m, d, names)))
    if k == "extract":
        bigger = [w for w in names if w > n]
        if not bigger:
            return draw(leaf(n, names))
        w = draw(st.sampled_from(bigger))
        lo = draw(st.integers(0, w - n))
        return ("extract", lo + n - 1, lo, draw(bv(w, d, names)))
    if k == "concat" and n >= 2:
        m = draw(st.integers(1, n - 1))
        if m not in names or (n - m) not in names:
            return draw(leaf(n, names))
        return ("concat", draw(bv(m, d, names)), draw(bv(n - m, d, names)))
    if k == "ite":
        return ("ite", draw(boolt(d, names)), draw(bv(n, d, names)), draw(bv(n, d, names)))
    if k == "set":
        a = draw(bv(n, d, names))
        op = draw(st.sampled_from(("union", "union", "widen", "intersection")))
        b = a if op == "intersection" else draw(bv(n, d, names))
        if _has_setop(a) or _has_setop(b):
            return a
        return (op, a, b)
    return draw(leaf(n, names))


@st.composite
def boolt(draw, depth, names):
    n = draw(st.sampled_from(sorted(names)))
    d = max(depth - 1, 0)
    k = draw(st.integers(0, 9))
    if k < 7 or depth <= 0:
        a, b = draw(bv(n, d, names)), draw(bv(n, d, names))
        if _has_setop(a) or _has_setop(b):
            a, b = draw(leaf(n, names)), draw(leaf(n, names))
        return (draw(st.sampled_from(ir.BV_CMP)), a, b)
    if k == 7:
        return ("and", draw(boolt(d, names)), draw(boolt(d, names)))
    if k == 8:
        return ("or", draw(boolt(d, names)), draw(boolt(d, names)))
    j = draw(st.integers(0, 3))
    if j == 0:
        return ("not", draw(boolt(d, names)))
    if j == 3:
        return ("bite", draw(boolt(d, names)), draw(boolt(d, names)), draw(boolt(d, names)))
    # equality / disequality BETWEEN truth values (two maybe-results are not thereby equal)
    return ("beq" if j == 1 else "bne", draw(boolt(d, names)), draw(boolt(d, names)))


@st.composite
def same_var_relation(draw, names):
    """A comparison whose two sides are different functions of the SAME variable (abstract values derived from one variable keep
    its identity; "same identity" must not be read as "same value")."""
    w = draw(st.sampled_from(sorted(names)))
    v = draw(st.sampled_from(names[w]))

    def wrap():
        k = draw(st.integers(0, 7))
        if k == 0:
            return v
        if k == 1:
            return ("bvadd", v, _c(draw(st.integers(0, (1 << w) - 1)), w))
        if k == 2:
            return (draw(st.sampled_from(("bvnot", "bvneg"))), v)
        if k == 3:
            return ("bvand", v, _c(draw(st.integers(0, (1 << w) - 1)), w))
        if k == 4:
            return (draw(st.sampled_from(("bvshl", "bvlshr", "bvashr"))), v, _c(draw(st.integers(0, w)), w))
        return None  # extension, decided jointly below

    a, b = wrap(), wrap()
    if a is None or b is None:
        m = draw(st.integers(1, 4))
        ext = lambda: (draw(st.sampled_from(("zext", "sext"))), m, v)  # noqa: E731
        a, b = ext(), ext()
        if draw(st.integers(0, 3)) == 0:
            b = ("concat", _c(draw(st.sampled_from((0, (1 << m) - 1))), m), v)
    return (draw(st.sampled_from(ir.BV_CMP)), a, b)


@st.composite
def gen_case(draw):
    # variable pool: 1-3 variables, widths 2-6
    nvars = draw(st.integers(1, 3))
    widths = [draw(st.sampled_from((2, 3, 3, 4, 4, 5, 6))) for _ in range(nvars)]
    names = {}
    for i, w in enumerate(widths):
        v = ("var", f"v{i}_{w}", w)
        if draw(st.integers(0, 9)) < 8:
            forms = sg.canonical(min(w, 4)) if w <= 4 else None
            if forms is not None:
                t = draw(st.sampled_from(forms))
            else:
                mod = 1 << w
                lb = draw(st.integers(0, mod - 1))
                s = draw(st.sampled_from((1, 1, 2, 3, 4, 5)))
                cnt = draw(st.integers(0, min(12, (mod - 1) // s)))
                t = (s if cnt else 0, lb, (lb + cnt * s) % mod)
            v = ("anno", list(t), v)
        names.setdefault(w, []).append(v)
    root_w = draw(st.sampled_from(sorted(names)))
    k = draw(st.integers(0, 13))
    if k >= 12:
        # two Ifs under one operator whose conditions compare the SAME operands (ITE excavation merges related conditions)
        e, kk = draw(leaf(root_w, names)), draw(leaf(root_w, names))
        c1 = (draw(st.sampled_from(ir.BV_CMP)), e, kk)
        c2 = (draw(st.sampled_from(ir.BV_CMP)), e, kk)
        if draw(st.integers(0, 3)) == 0:
            c2 = ("not", c1)
        i1 = ("ite", c1, draw(bv(root_w, 1, names)), draw(bv(root_w, 1, names)))
        i2 = ("ite", c2, draw(bv(root_w, 1, names)), draw(bv(root_w, 1, names)))
        op = draw(st.sampled_from(("bvadd", "bvsub", "bvand", "bvor", "bvxor", "bvmul", "ult", "sle", "eq", "ne", "uge")))
        tree = (op, i1, i2)
    elif k < 3:
        tree = draw(boolt(3, names)) if draw(st.integers(0, 2)) else draw(same_var_relation(names))
    elif k < 9:
        tree = draw(bv(root_w, draw(st.integers(1, 3)), names))
        if tree[0] in ("var", "const", "anno"):
            tree = (draw(st.sampled_from(("bvadd", "bvsub", "bvand", "bvor", "bvxor", "bvmul"))), tree, draw(bv(root_w, 1, names)))
    else:
        # set operations: at the root, or directly under one binary operation / comparison
        a = draw(bv(root_w, 2, names))
        op = draw(st.sampled_from(("union", "union", "widen", "intersection")))
        b = a if op == "intersection" else draw(bv(root_w, 2, names))
        tree = (op, a, b)
        j = draw(st.integers(0, 3))
        if j == 1:
            tree = (draw(st.sampled_from(("bvadd", "bvsub", "bvand", "bvor", "bvxor", "bvmul"))), tree, draw(bv(root_w, 1, names)))
        elif j == 2:
            tree = (draw(st.sampled_from(ir.BV_CMP)), tree, draw(bv(root_w, 1, names)))
    cons = []
    if draw(st.integers(0, 2)) == 0:
        for _ in range(draw(st.integers(1, 2))):
            c = draw(boolt(1, names))
            if not _has_setop(c):
                cons.append(c)
    return {"tree": tree, "constraints": cons}


@st.composite
def bswap16_case(draw):
    """Byte reversal of a 16-bit annotated variable (any interval: strided, wrapping, narrow, huge) or of a 16-bit value built from
    an 8-bit annotated variable, under arithmetic, bitwise operations, comparisons, slicing and a second reversal."""
    mod = 1 << 16
    if draw(st.booleans()):
        v = ("var", "v0_16", 16)
        lb = draw(st.one_of(st.sampled_from((0, 1, 0xFF, 0x100, 0x7FFF, 0x8000, 0xFF00, 0xFFFF)), st.integers(0, mod - 1)))
        s_ = draw(st.sampled_from((1, 1, 2, 3, 0x100, 0x101, 256 * 3, 7)))
        cnt = draw(st.one_of(st.integers(0, 40), st.integers(0, (mod - 1) // s_)))
        v = ("anno", [s_ if cnt else 0, lb, (lb + cnt * s_) % mod], v)
        inner = v
    else:
        w = ("var", "v0_8", 8)
        lb = draw(st.integers(0, 255))
        s_ = draw(st.sampled_from((1, 1, 2, 3, 16)))
        cnt = draw(st.integers(0, 255 // s_))
        w = ("anno", [s_ if cnt else 0, lb, (lb + cnt * s_) % 256], w)
        inner = draw(st.sampled_from([("zext", 8, w), ("sext", 8, w), ("concat", w, _c(draw(st.sampled_from((0, 0x80, 0xFF))), 8)), ("concat", _c(draw(st.sampled_from((0, 1, 0xFF))), 8), w)]))
    r = ("bswap", inner)
    k = draw(st.integers(0, 9))
    c16 = lambda: _c(draw(st.one_of(st.sampled_from((0, 1, 0xFF, 0x100, 0x7FFF, 0x8000, 0xFF00, 0xFFFF)), st.integers(0, mod - 1))), 16)  # noqa: E731
    if k <= 2:
        tree = (draw(st.sampled_from(ir.BV_CMP)), r, c16()) if draw(st.booleans()) else (draw(st.sampled_from(ir.BV_CMP)), c16(), r)
    elif k <= 4:
        tree = (draw(st.sampled_from(("bvadd", "bvsub", "bvmul", "bvand", "bvor", "bvxor"))), r, c16())
    elif k == 5:
        tree = ("extract", draw(st.sampled_from((7, 15, 11))), draw(st.sampled_from((0, 4, 8))), r)
        if tree[1] < tree[2]:
            tree = ("extract", 15, 8, r)
    elif k == 6:
        tree = ("bswap", ("bvadd", r, c16()))
    elif k == 7:
        tree = (draw(st.sampled_from(ir.BV_CMP)), r, inner)
    elif k == 8:
        tree = (draw(st.sampled_from(("bvshl", "bvlshr", "bvashr"))), r, _c(draw(st.sampled_from((1, 4, 8, 9))), 16))
    else:
        tree = ("ite", (draw(st.sampled_from(ir.BV_CMP)), r, c16()), r, inner)
    return {"tree": tree, "constraints": []}


N = {"quick": 1800, "thorough": 25000}


def shards(tier, seed):
    out = [{"i": i, "n": N[tier], "hseed": seed * 1000 + 2400 + i} for i in range(16)]
    out += [{"i": 16 + j, "bswap": True, "n": N[tier] // 12, "hseed": seed * 1000 + 2440 + j} for j in range(4)]
    return out


def run_shard(shard, ctx):
    def body(case):
        exprcheck.reset_caches()
        fails, info = check_case(case)
        for ex in info.get("exceptions", []):
            ctx.count("exception:" + ex)
        ctx.case(case, info["nontrivial"], sorted(set(info["classes"])), sample={"tree": ir.pretty(_plain(_strip(case["tree"])[0])), "intervals": {k: list(v) for k, v in _strip(case["tree"])[1].items()},
                                                                                  "constraints": [ir.pretty(_strip(c)[0]) for c in case["constraints"]]})
        seen = set()
        for fp, obs in fails:
            if fp not in seen:
                seen.add(fp)
                ctx.fail(fp, case, obs)

    hyp.run(bswap16_case() if shard.get("bswap") else gen_case(), shard["n"], shard["hseed"], body, ctx)


def shrink(case, obs, fp, matcher, deadline):
    def still(c):
        try:
            for f, o in replay(c):
                if f == fp and matcher.match(f, c, o) is None:
                    return o
        except Exception:  # noqa: BLE001
            return None
        return None

    def subtrees(t):
        if isinstance(t, tuple):
            for c in t[1:]:
                if isinstance(c, tuple) and c[0] not in ("var", "const", "bvar", "bconst"):
                    if c[0] == "anno":
                        continue
                    yield c
                    yield from subtrees(c)

    def cands(c):
        if c["constraints"]:
            yield {**c, "constraints": []}
        for s in subtrees(ir.T(c["tree"])):
            yield {**c, "tree": s}

    c2, o2 = shrinker.greedy({**case, "tree": ir.T(case["tree"])}, cands, still, deadline)
    return c2, (o2 if o2 is not None else obs)


KNOWN_PREDICATES = {}
