"""C25 -- constraint_to_si never cuts off a satisfying assignment."""

from __future__ import annotations

import itertools

import claripy
import numpy as np
from hypothesis import strategies as st

from .. import build_claripy, exprcheck, hyp, ir, sem_np, shrink as shrinker, si_gamma as sg

ID = "C25"
LEVEL = "exploration"
RULE = (
    "Cases are constraints `lhs cmp rhs` (cmp in = != and the eight signed/unsigned orders) whose lhs is one of the shapes the balancer "
    "handles -- x, x+-c, c-x, x+y, x-y, extract(h,l,x), concat(0,x), concat(x,y), concat(c,x), zext/sext(k,x), x & mask, x << k, x >> k, "
    "ite(cond,x,y), ~x, -x, bswap(x) (16 bit) and two-level compositions -- with rhs a constant or a variable, three- and four-level nestings of the operators the balancer moves across a comparison (extensions, concatenation with zeros, add / sub / and of edge constants, shifts, extraction) over a 3-4 bit variable, plus conjunctions, "
    "disjunctions and negations of two such; 1-2 variables of width 3/4/6/8 (one 16-bit variable for bswap). Complete enumeration of "
    "(shape, comparison, constants) at width 3 for the one-variable shapes, Hypothesis generation otherwise. Entry points "
    "claripy.constraint_to_si and backends.vsa.constraint_to_si; end to end SolverReplacement(complex_auto_replace) and SolverHybrid "
    "approximate queries. Oracle: ALL assignments are enumerated (numpy, <= 2^16); if any satisfies the constraint the returned flag "
    "must be True; for every returned (expression, bound) and every satisfying assignment the expression's value (independent AST "
    "evaluator) must be a member of gamma(backends.vsa.convert(bound)); end to end: every value of a variable under a satisfying "
    "assignment must remain a solution / within [min,max] of the approximate frontend after the constraint was added. Non-trivial: the "
    "constraint is satisfiable but not valid and some returned bound is not TOP; distinct by SHA-1 of the tree."
)
ASSUMPTIONS = [
    "exceptions out of constraint_to_si are counted (evidence) but are not violations of this property, which speaks about the returned flag and bounds",
    "variables are unannotated (TOP) except in the annotated-variable mode, where the satisfying assignments are restricted to the annotated interval's members",
]
BUDGET_S = {"quick": 220, "thorough": 2400}
CMPS = ("eq", "ne", "ult", "ule", "ugt", "uge", "slt", "sle", "sgt", "sge")


def space_for(tree):
    vs = ir.variables(ir.T(tree))
    return sem_np.Space(sorted(vs.items()))


def _contains_all(si, values):
    for v in values:
        if not sg.contains(si, int(v)):
            return int(v)
    return None


def check_case(case):
    tree = ir.T(case["tree"])
    info = {"classes": [f"cmp:{tree[0]}"], "nontrivial": False}
    fails = []
    sp = space_for(tree)
    if sp.bits > 16:
        info["classes"].append("too-wide")
        return [], info
    M = sp.ev(tree)
    nsat = int(M.sum())
    info["classes"].append("sat:none" if nsat == 0 else "sat:all" if nsat == sp.size else "sat:some")
    try:
        c = build_claripy.build(tree)
    except Exception:  # noqa: BLE001 - construction crashes are C04's
        info["classes"].append("build-exception")
        return [], info
    if not isinstance(c, claripy.ast.Base) or c.op in ("BoolV",):
        info["classes"].append("folded-to-constant")
        return [], info
    for entry, fn in (("claripy.constraint_to_si", claripy.constraint_to_si), ("backends.vsa.constraint_to_si", claripy.backends.vsa.constraint_to_si)):
        try:
            sat, pairs = fn(c)
        except claripy.errors.ClaripyError as e:  # counted, see ASSUMPTIONS
            info["classes"].append(f"exception:{type(e).__name__}")
            info.setdefault("exceptions", []).append(exprcheck.exc_fingerprint(e))
            continue
        except Exception as e:  # noqa: BLE001 - an internal error is not an answer; with satisfying assignments it is a violation
            info["classes"].append(f"exception:{type(e).__name__}")
            info.setdefault("exceptions", []).append(exprcheck.exc_fingerprint(e))
            if nsat:
                fails.append((f"raises:{type(e).__name__}:{_shape(tree)}", {"tree": ir.pretty(tree), "entry": entry, "exc": repr(e)[:160], "satisfying_assignments": nsat}))
            continue
        if nsat and not sat:
            fails.append((f"unsat-claimed:{_shape(tree)}", {"tree": ir.pretty(tree), "entry": entry, "satisfying_assignments": nsat, "example": sp.assignment(int(np.flatnonzero(M)[0]))}))
            continue
        if not nsat:
            continue
        info["classes"].append(f"bounds:{min(len(pairs), 3)}")
        for expr, bound in pairs:
            try:
                b = claripy.backends.vsa.convert(bound) if isinstance(bound, claripy.ast.Base) else bound
                vals = np.unique(sp.ev_ast(expr)[M])
            except Exception as e:  # noqa: BLE001
                info["classes"].append(f"bound-uninterpretable:{type(e).__name__}")
                continue
            if not hasattr(b, "lower_bound"):
                info["classes"].append("bound-not-si")
                continue
            if not b.is_top:
                info["nontrivial"] = nsat < sp.size
            if b.is_empty:
                missing = int(vals[0])
            else:
                missing = _contains_all(b, vals)
            if missing is not None:
                k = int(np.flatnonzero(M & (sp.ev_ast(expr) == np.uint64(missing)))[0])
                fails.append((f"bound-excludes-satisfying-value:{_shape(tree)}", {"tree": ir.pretty(tree), "entry": entry, "expr": repr(expr)[:120], "bound": sg.describe(b), "value": missing, "assignment": sp.assignment(k)}))
                break
    if case.get("e2e"):
        fails += _end_to_end(tree, c, sp, M, info)
    return fails, info


def _end_to_end(tree, c, sp, M, info):
    """Bound-based replacements must not remove a feasible value: after add(c) every value a variable takes under a satisfying
    assignment is still a solution for the approximating frontends."""
    fails = []
    if not M.any():
        return fails
    for name, mk in (("SolverReplacement(complex)", lambda: claripy.SolverReplacement(claripy.Solver(), complex_auto_replace=True, replace_constraints=True)),
                     ("SolverHybrid(approx)", lambda: claripy.SolverHybrid())):
        try:
            s = mk()
            s.add(c)
            for vname, w in sp.variables:
                if w == 0:
                    continue
                v = claripy.BVS(vname, w, explicit_name=True)
                feas = np.unique(sp.env[vname][M])
                kw = {"exact": False} if "Hybrid" in name else {}
                try:
                    mn, mx = s.min(v, **kw), s.max(v, **kw)
                except claripy.errors.ClaripyFrontendError:
                    info["classes"].append("e2e-declined")
                    continue
                if int(feas.min()) < mn or int(feas.max()) > mx:
                    fails.append((f"e2e-feasible-value-cut:{name}:{_shape(tree)}", {"tree": ir.pretty(tree), "var": vname, "min": mn, "max": mx, "feasible_min": int(feas.min()), "feasible_max": int(feas.max())}))
                    break
                if not s.satisfiable(**kw):
                    fails.append((f"e2e-unsat-claimed:{name}:{_shape(tree)}", {"tree": ir.pretty(tree)}))
                    break
        except claripy.errors.ClaripyError as e:
            info["classes"].append(f"e2e-exception:{type(e).__name__}")
        except Exception as e:  # noqa: BLE001
            info["classes"].append(f"e2e-exception:{type(e).__name__}")
            info.setdefault("exceptions", []).append(exprcheck.exc_fingerprint(e))
    return fails


def _shape(tree):
    """lhs shape + comparison class (root-cause key)."""
    def sk(t, d=2):
        if t[0] in ("var", "const", "bvar", "bconst"):
            return t[0]
        if d == 0:
            return t[0]
        return t[0] + "(" + ",".join(sk(c, d - 1) for c in ir.children(t)) + ")"

    if tree[0] in CMPS:
        kind = "eq" if tree[0] in ("eq", "ne") else "unsigned" if tree[0].startswith("u") else "signed"
        return f"{sk(tree[1])}:{kind}:{sk(tree[2], 1)}"
    return sk(tree, 2)


def replay(case):
    exprcheck.reset_caches(force=True)
    fails, _ = check_case(case)
    out = {}
    for fp, obs in fails:
        out.setdefault(fp, obs)
    return list(out.items())


# ------------------------------------------------------------------ generators


def _c(v, n):
    return ("const", v & ((1 << n) - 1), n)


def lhs_shapes(n, x, y, consts):
    """(name, tree) one-level shapes over x (and y) of width n; constants from `consts`."""
    out = [("x", x)]
    for c in consts:
        out += [("x+c", ("bvadd", x, _c(c, n))), ("x-c", ("bvsub", x, _c(c, n))), ("c-x", ("bvsub", _c(c, n), x)), ("x&m", ("bvand", x, _c(c, n))),
                ("x|m", ("bvor", x, _c(c, n))), ("x^c", ("bvxor", x, _c(c, n))), ("x*c", ("bvmul", x, _c(c, n)))]
    for k in range(1, n):
        out += [("x<<k", ("bvshl", x, _c(k, n))), ("x>>k", ("bvlshr", x, _c(k, n))), ("x>>>k", ("bvashr", x, _c(k, n)))]
    for hi in range(n):
        for lo in range(hi + 1):
            if (hi, lo) != (n - 1, 0):
                out.append((f"x[{hi}:{lo}]", ("extract", hi, lo, x)))
    for k in (1, 2, n):
        out += [("zext", ("zext", k, x)), ("sext", ("sext", k, x)), ("0..x", ("concat", _c(0, k), x)), ("x..0", ("concat", x, _c(0, k)))]
    out += [("~x", ("bvnot", x)), ("-x", ("bvneg", x))]
    if y is not None:
        out += [("x+y", ("bvadd", x, y)), ("x-y", ("bvsub", x, y)), ("x..y", ("concat", x, y)), ("ite", ("ite", ("ult", y, _c(2, n)), x, ("bvadd", x, _c(1, n)))),
                ("ite2", ("ite", ("bvar", "p"), x, y))]
    return out


def enum_cases(n=3):
    x = ("var", f"x_{n}", n)
    for name, lhs in lhs_shapes(n, x, None, range(1 << n)):
        w = ir.width(lhs)
        for cmp_ in CMPS:
            for c in range(1 << w) if w <= 3 else sorted({0, 1, 2, (1 << w) - 1, 1 << (w - 1), (1 << (w - 1)) - 1, 3, 5, (1 << w) - 2}):
                yield {"tree": (cmp_, lhs, _c(c, w)), "shape": name}


def enum_shift_cases():
    """A shift over an extended variable with or without an added / subtracted constant in between, every shift amount, every
    comparison, constants at the edges: the shapes on which the balancer decides whether a shift can be undone."""
    for n in (3, 4):
        v = ("var", f"x_{n}", n)
        for k in (1, 2, 3, 4):
            w = n + k
            mw = (1 << w) - 1
            inners = [("zext", k, v), ("concat", _c(0, k), v), ("sext", k, v)]
            for base in (("zext", k, v), ("concat", _c(0, k), v)):
                for c in (1, 2, mw):
                    inners += [("bvadd", base, _c(c, w)), ("bvsub", base, _c(c, w))]
            for inner in inners:
                for s_ in range(1, w):
                    for sh in ("bvshl", "bvlshr"):
                        lhs = (sh, inner, _c(s_, w))
                        for cmp_ in CMPS:
                            for c in sorted({0, 1, 1 << s_, mw, 1 << (w - 1), (1 << s_) - 1}):
                                yield {"tree": (cmp_, lhs, _c(c & mw, w)), "shape": "shift-layer"}


@st.composite
def gen_case(draw):
    n = draw(st.sampled_from((3, 4, 6, 8, 8, 4)))
    two = draw(st.booleans()) and n <= 8
    x = ("var", f"x_{n}", n)
    y = ("var", f"y_{n}", n) if two else None
    m = (1 << n) - 1
    consts = [draw(st.sampled_from(sorted({0, 1, 2, 3, m, m - 1, 1 << (n - 1), (1 << (n - 1)) - 1, 5 & m, 0xF & m, 0xF0 & m}))), draw(st.integers(0, m))]

    def layered():
        """2-4 layers of the operators the balancer moves across a comparison, each with constants at the edges of what the layer
        below can reach (1, 2, powers of two, all ones)."""
        v = ("var", f"x_{min(n, 4)}", min(n, 4))
        e = v
        for _ in range(draw(st.integers(2, 4))):
            w = ir.width(e)
            mw = (1 << w) - 1
            cs = sorted({1, 2, mw, mw - 1, 1 << (w - 1), (1 << (w - 1)) - 1, 3 & mw})
            opts = [("bvadd", e, _c(draw(st.sampled_from(cs)), w)), ("bvsub", e, _c(draw(st.sampled_from(cs)), w)), ("bvsub", _c(draw(st.sampled_from(cs)), w), e),
                    ("bvand", e, _c(draw(st.sampled_from(cs)), w))]
            if w <= 8:
                k = draw(st.integers(1, 4))
                opts += [("zext", k, e), ("zext", k, e), ("sext", k, e), ("concat", _c(0, k), e), ("concat", e, _c(0, k))]
            if w >= 2:
                opts += [("bvshl", e, _c(draw(st.integers(1, w - 1)), w)), ("bvshl", e, _c(draw(st.integers(1, w - 1)), w)), ("bvlshr", e, _c(draw(st.integers(1, w - 1)), w)),
                         ("extract", draw(st.integers(0, w - 1)), 0, e), (lambda hi: ("extract", hi, draw(st.integers(0, hi)), e))(draw(st.integers(0, w - 1)))]
            e = draw(st.sampled_from(opts))
        return e

    def one():
        name, lhs = draw(st.sampled_from(lhs_shapes(n, x, y, consts)))
        if draw(st.integers(0, 3)) == 0:
            lhs = layered()
        elif draw(st.integers(0, 3)) == 0:
            # second level: wrap the shape again
            w = ir.width(lhs)
            lhs = draw(st.sampled_from([("bvadd", lhs, _c(draw(st.integers(0, (1 << w) - 1)), w)), ("zext", 2, lhs), ("bvand", lhs, _c(draw(st.integers(0, (1 << w) - 1)), w)),
                                        ("bvshl", ("zext", w, lhs), _c(draw(st.integers(1, w)), 2 * w)) if 2 * w <= 16 else ("zext", 1, lhs),
                                        ("bvshl", lhs, _c(draw(st.integers(1, max(w - 1, 1))), w)), ("bvlshr", lhs, _c(draw(st.integers(1, max(w - 1, 1))), w)),
                                        ("extract", max(w - 2, 0), 0, lhs) if w > 1 else lhs, ("bvsub", _c(draw(st.integers(0, (1 << w) - 1)), w), lhs)]))
        w = ir.width(lhs)
        cmp_ = draw(st.sampled_from(CMPS))
        mw = (1 << w) - 1
        if y is not None and ir.width(y) == w and draw(st.integers(0, 3)) == 0:
            rhs = y
        else:
            rhs = _c(draw(st.one_of(st.sampled_from(sorted({0, 1, mw, mw - 1, 1 << (w - 1), (1 << (w - 1)) - 1, (1 << (w - 1)) + 1, 3 & mw})), st.integers(0, mw))), w)
        t = (cmp_, lhs, rhs)
        if draw(st.integers(0, 5)) == 0:
            t = (cmp_, rhs, lhs)  # constant on the left
        return t

    k = draw(st.integers(0, 9))
    t = one()
    if k == 0:
        t = ("and", t, one())
    elif k == 1:
        t = ("or", t, one())
    elif k == 2:
        t = ("not", t)
    elif k == 3:
        # (dis)equality between truth values: nothing the balancer can bound, but it has to survive it
        t = (draw(st.sampled_from(("beq", "bne"))), t, draw(st.one_of(st.just(("bconst", False)), st.just(("bconst", True)), st.just(None))) or one())
        if draw(st.booleans()):
            t = ("or", t, one())
    return {"tree": t, "e2e": draw(st.integers(0, 3)) == 0}


@st.composite
def bswap_case(draw):
    """Byte reversal of a 16-bit variable and -- what makes the interval under the reversal non-trivial while the assignment
    space stays small -- of a 16-bit value built from a 4- or 8-bit variable (zero / sign extension, concatenation with a
    constant byte, an added constant), alone, sliced, or under an addition."""
    k = draw(st.integers(0, 9))
    if k <= 2:
        inner = ("var", "x_16", 16)
    else:
        n = draw(st.sampled_from((4, 8)))
        v = ("var", f"x_{n}", n)
        inner = draw(st.sampled_from([("zext", 16 - n, v), ("sext", 16 - n, v), ("concat", _c(draw(st.sampled_from((0, 1, 0x80, 0xFF))) & ((1 << (16 - n)) - 1), 16 - n), v),
                                      ("concat", v, _c(draw(st.sampled_from((0, 1, 0x80, 0xFF))) & ((1 << (16 - n)) - 1), 16 - n)),
                                      ("bvadd", ("zext", 16 - n, v), _c(draw(st.sampled_from((1, 0xFF, 0x100, 0x7FF0, 0xFFF0))), 16))]))
    r = ("bswap", inner)
    lhs = draw(st.sampled_from([r, r, ("extract", 7, 0, r), ("extract", 15, 8, r), ("bvadd", r, _c(draw(st.integers(0, 65535)), 16)), ("bswap", ("bvadd", r, _c(draw(st.sampled_from((1, 0x100, 0xFF00))), 16)))]))
    w = ir.width(lhs)
    consts = (0, 1, 0xF, 0x10, 0xFF, 0x100, 0xF00, 0xFFF, 0x1000, 0x7FFF, 0x8000, 0xFF00, 0xFFFF, 0x1234)
    return {"tree": (draw(st.sampled_from(CMPS)), lhs, _c(draw(st.sampled_from(consts)) & ((1 << w) - 1), w)), "e2e": draw(st.integers(0, 3)) == 0}


N = {"quick": {"gen": 1500, "bswap": 400}, "thorough": {"gen": 20000, "bswap": 6000}}


def shards(tier, seed):
    out = []
    for i in range(12):
        out.append({"mode": "gen", "i": i, "n": N[tier]["gen"], "hseed": seed * 1000 + 2500 + i})
    for i in range(3):
        out.append({"mode": "bswap", "i": i, "n": N[tier]["bswap"], "hseed": seed * 1000 + 2520 + i})
    parts = 3
    for p in range(parts):
        out.append({"mode": "enum", "part": p, "parts": parts})
    sparts = 8
    for p in range(sparts if tier == "thorough" else 4):
        # quick: a seed-selected half of the shift-layer family
        out.append({"mode": "enum-shift", "part": (p * 2 + seed) % sparts if tier == "quick" else p, "parts": sparts})
    return out


def run_shard(shard, ctx):
    def body(case):
        exprcheck.reset_caches()
        fails, info = check_case(case)
        for ex in info.get("exceptions", []):
            ctx.count("exception:" + ex)
        ctx.case({"tree": case["tree"], "e2e": case.get("e2e", False)}, info["nontrivial"], [f"mode:{shard['mode']}", *sorted(set(info["classes"]))],
                 sample={"constraint": ir.pretty(ir.T(case["tree"])), "e2e": case.get("e2e", False)})
        seen = set()
        for fp, obs in fails:
            if fp not in seen:
                seen.add(fp)
                ctx.fail(fp, {"tree": case["tree"], "e2e": case.get("e2e", False)}, obs)

    if shard["mode"] == "enum":
        n = 0
        for k, case in enumerate(enum_cases(3)):
            if k % shard["parts"] != shard["part"]:
                continue
            if ctx.out_of_time():
                return
            body(case)
            n += 1
        ctx.extra["enumerated_width3_constraints"] = n
        ctx.extra["exhaustive"] = True
        ctx.extra["exhaustive_subdomain"] = "every one-variable shape x every comparison x every constant at width 3 (all 8 assignments each)"
        return
    if shard["mode"] == "enum-shift":
        n = 0
        for k, case in enumerate(enum_shift_cases()):
            if k % shard["parts"] != shard["part"]:
                continue
            if ctx.out_of_time():
                return
            body({**case, "e2e": False})
            n += 1
        ctx.extra["enumerated_shift_layer_constraints"] = n
        return
    strat = gen_case() if shard["mode"] == "gen" else bswap_case()
    hyp.run(strat, shard["n"], shard["hseed"], body, ctx)


def shrink(case, obs, fp, matcher, deadline):
    def still(c):
        for f, o in replay(c):
            if f == fp and matcher.match(f, c, o) is None:
                return o
        return None

    def cands(c):
        for t in shrinker.tree_candidates(ir.T(c["tree"])):
            if ir.is_bool(t):
                yield {**c, "tree": t}

    c2, o2 = shrinker.greedy({**case, "tree": ir.T(case["tree"])}, cands, still, deadline)
    return c2, (o2 if o2 is not None else obs)


KNOWN_PREDICATES = {}
