"""C09 -- solver-backed simplification preserves meaning and handles all claripy operators."""

from __future__ import annotations

import claripy
import z3
from hypothesis import strategies as st

from .. import build_claripy, exprcheck, fpcheck as fc, gen, hyp, ir, sem_z3, shrink as shrinker, solver_machine as sm, strcheck as sc
from . import _solverprop as sp

ID = "C09"
LEVEL = "exploration"
RULE = (
    "Expression level: typed BV/Bool trees (random grammar, rewrite templates, and shapes whose Z3-simplified form uses other operators: "
    "division/remainder by non-zero constants, distinct, Boolean xor/iff, ite chains, extensions, rotates, extract of concat), FP trees "
    "over symbolic floats (incl. fpIsNaN/fpIsInf, conversions, ite) and string trees over a symbolic string are built through the public "
    "API and passed to claripy.simplify and to backends.z3.simplify. Oracle: no exception (backends.z3.simplify may decline with "
    "BackendError only for string trees, whose operators have no reverse mapping; claripy.simplify may never raise), and the result is "
    "equivalent to the written tree: BV/Bool by the independent evaluator over all assignments (<=10 bits) or boundary samples plus a Z3 "
    "validity query against an independently built term; FP and strings by substituting sampled boundary assignments into the Z3 "
    "translation of the result and into the independent reference term. Solver level: histories on Solver, SolverCacheless and "
    "SolverComposite with simplify() interleaved: the model set of solver.constraints (brute force over all 2^17 assignments) must be the "
    "same before and after simplify(), and every later answer is checked against the model set; FP/string constraint sets: simplify() must "
    "not raise and the conjunction must evaluate the same on sampled assignments. Non-trivial: the simplified AST differs from the input "
    "and contains an operator the input did not (or, for solvers, a simplify() that changed the stored constraints); distinct by SHA-1."
)
ASSUMPTIONS = [
    "Z3 4.13 bit-vector decision procedure for the equivalence queries (timeouts inconclusive); FP/strings compared on sampled assignments only",
    "operators that only arise from Z3 terms claripy cannot produce (e.g. bvsmod) are outside the property's domain and only reported in an audit section",
]
BUDGET_S = {"quick": 220, "thorough": 2400}


def ops_of(a, limit=500):
    out = set()
    stack = [a]
    n = 0
    while stack and n < limit:
        x = stack.pop()
        n += 1
        if isinstance(x, claripy.ast.Base):
            out.add(x.op)
            stack.extend(x.args)
    return out


SIMPLIFIERS = (("claripy.simplify", lambda e: claripy.simplify(e)), ("backends.z3.simplify", lambda e: claripy.backends.z3.simplify(e)))


def check_bv(tree, spell, use_z3=True):
    tree = ir.T(tree)
    info = {"classes": [f"top:{tree[0]}"], "nontrivial": False, "newops": set()}
    br = exprcheck.build(tree, spell)
    if br.exc is not None:
        info["classes"].append("build-exception")
        return [], info
    r = br.ast
    fails = []
    for name, fn in SIMPLIFIERS:
        try:
            s = fn(r)
        except Exception as e:  # noqa: BLE001 - any exception is an observation here
            fails.append((f"raises:{name}:{exprcheck.exc_fingerprint(e)}", {"tree": ir.pretty(tree), "exc": repr(e)[:200], "cause": repr(e.__cause__)[:200]}))
            continue
        new = ops_of(s) - ops_of(r)
        if s is not r:
            info["classes"].append(f"{name}:changed")
            if new:
                info["nontrivial"] = True
                info["newops"] |= new
        f, cinfo = exprcheck.compare_meaning(tree, s, spell, use_z3=use_z3)
        if cinfo.get("z3") == "unknown":
            info["classes"].append("oracle-inconclusive")
        if f is not None:
            kind, obs = f
            only = sorted(new)[:3]
            fails.append((f"not-equivalent:{name}:{kind}:{'+'.join(only) if only else tree[0]}", {**obs, "tree": ir.pretty(tree), "input": repr(r)[:200], "simplified": repr(s)[:200]}))
    return fails, info


def _eval_env(term, env, vars_, fam):
    if fam == "fp":
        return fc.z3_ground_value(fc.z3_subst(term, env, vars_))
    return sc.z3_value(sc.z3_subst(term, env))


def _same(a, b):
    if isinstance(a, tuple) and isinstance(b, tuple) and (a[0] == "nan" or b[0] == "nan"):
        return a[0] == b[0]
    return a == b


def check_other(fam, tree, spell, envs):
    """FP / string trees: no exception, same value on sampled assignments."""
    mod = fc if fam == "fp" else sc
    tree = mod.T(tree)
    info = {"classes": [f"{fam}:top:{tree[0]}"], "nontrivial": False, "newops": set()}
    try:
        r = mod.build(tree, build_claripy.Chooser(spell))
    except Exception:  # noqa: BLE001
        info["classes"].append("build-exception")
        return [], info
    if not r.symbolic:
        info["classes"].append("folded-at-build")
    ref = mod.z3term(tree)
    vars_ = fc.variables(tree) if fam == "fp" else None
    fails = []
    for name, fn in SIMPLIFIERS:
        try:
            s = fn(r)
        except claripy.errors.BackendError as e:
            if name == "backends.z3.simplify" and fam == "str":
                info["classes"].append("z3-declined(strings)")
                continue
            fails.append((f"raises:{name}:{fam}:{exprcheck.exc_fingerprint(e)}", {"tree": mod.pretty(tree), "exc": repr(e)[:200], "cause": repr(e.__cause__)[:200]}))
            continue
        except Exception as e:  # noqa: BLE001
            fails.append((f"raises:{name}:{fam}:{exprcheck.exc_fingerprint(e)}", {"tree": mod.pretty(tree), "exc": repr(e)[:200], "cause": repr(e.__cause__)[:200]}))
            continue
        new = ops_of(s) - ops_of(r)
        if s is not r:
            info["classes"].append(f"{name}:changed")
            if new:
                info["nontrivial"] = True
                info["newops"] |= new
        try:
            term = claripy.backends.z3.convert(s)
        except Exception as e:  # noqa: BLE001
            fails.append((f"simplified-not-convertible:{name}:{fam}", {"tree": mod.pretty(tree), "simplified": repr(s)[:200], "exc": repr(e)[:200]}))
            continue
        for env in envs:
            if fam == "fp" and fc.unspecified_under(tree, env, vars_):
                continue
            try:
                got = _eval_env(term, env, vars_, fam)
                want = _eval_env(ref, env, vars_, fam)
            except (ValueError, z3.Z3Exception):
                info["classes"].append("not-ground")
                continue
            if not _same(got, want):
                fails.append((f"not-equivalent:{name}:{fam}:{'+'.join(sorted(new)[:3]) or tree[0]}",
                              {"tree": mod.pretty(tree), "env": env, "got": repr(got), "want": repr(want), "input": repr(r)[:200], "simplified": repr(s)[:200]}))
                break
    return fails, info


def check_set(fam, cons, envs):
    """A solver holding FP/string constraints: simplify() must not raise and must keep the conjunction's value on sampled assignments."""
    mod = fc if fam == "fp" else sc
    cons = [mod.T(c) for c in cons]
    info = {"classes": [f"set:{fam}"], "nontrivial": False, "newops": set()}
    fails = []
    try:
        built = [mod.build(c) for c in cons]
    except Exception:  # noqa: BLE001
        info["classes"].append("build-exception")
        return [], info
    for cls in (claripy.Solver, claripy.SolverComposite, claripy.SolverCacheless):
        s = cls()
        try:
            s.add(built)
            before = list(s.constraints)
            s.simplify()
            after = list(s.constraints)
        except Exception as e:  # noqa: BLE001
            fails.append((f"raises:Solver.simplify:{fam}:{cls.__name__}:{exprcheck.exc_fingerprint(e)}", {"constraints": [mod.pretty(c) for c in cons], "exc": repr(e)[:200]}))
            continue
        if [c.hash() for c in before] != [c.hash() for c in after]:
            info["nontrivial"] = True
            info["classes"].append("set-changed")
        ref = z3.And(*[mod.z3term(c) for c in cons]) if len(cons) > 1 else mod.z3term(cons[0])
        try:
            terms = [claripy.backends.z3.convert(c) for c in after]
        except Exception as e:  # noqa: BLE001
            fails.append((f"simplified-not-convertible:Solver.simplify:{fam}", {"exc": repr(e)[:200]}))
            continue
        got_t = z3.And(*terms) if len(terms) > 1 else (terms[0] if terms else z3.BoolVal(True))
        vars_ = {}
        for c in cons:
            if fam == "fp":
                vars_.update(fc.variables(c))
        for env in envs:
            try:
                got = _eval_env(got_t, env, vars_, fam)
                want = _eval_env(ref, env, vars_, fam)
            except (ValueError, z3.Z3Exception):
                continue
            if not _same(got, want):
                fails.append((f"set-not-equivalent:{fam}:{cls.__name__}", {"constraints": [mod.pretty(c) for c in cons], "env": env, "got": repr(got), "want": repr(want), "after": [repr(c)[:100] for c in after]}))
                break
    return fails, info


def run_case(case):
    k = case["kind"]
    if k == "bv":
        return check_bv(case["tree"], case.get("spell", 0))
    if k in ("fp", "str"):
        return check_other(k, case["tree"], case.get("spell", 0), case["envs"])
    if k == "set":
        return check_set(case["fam"], case["constraints"], case["envs"])
    raise ValueError(k)


def _owns(fp):
    return ":simplify:" in fp or "constraints-models-changed" in fp


def replay(case):
    exprcheck.reset_caches(force=True)
    if case.get("kind") == "history" or "history" in case:
        return sp.replay(case, None)
    fails, _ = run_case(case)
    out = {}
    for fp, obs in fails:
        out.setdefault(fp, obs)
    return list(out.items())


# ------------------------------------------------------------------ generators


@st.composite
def z3_shapes(draw, cfg):
    """Shapes the Z3 pipeline rewrites into operators other than the ones written."""
    n = draw(st.sampled_from((1, 2, 3, 4, 8, 16, 32, 64)))
    x = ("var", f"v0_{n}", n)
    y = ("var", f"v1_{n}", n)
    m = (1 << n) - 1
    c = ("const", draw(st.one_of(st.sampled_from(sorted({1, 2, 3, m, (m >> 1) + 1, m >> 1, 5 & m or 1, 7 & m or 1})), st.integers(1, m))), n)
    k = draw(st.integers(0, 15))
    p, q = ("bvar", "p0"), ("bvar", "p1")
    cmp_ = draw(st.sampled_from(ir.BV_CMP))
    if k == 0:
        t = (draw(st.sampled_from(ir.DIV_OPS)), x, c)
    elif k == 1:
        t = (draw(st.sampled_from(ir.DIV_OPS)), c, x)
    elif k == 2:
        return ("ne", (draw(st.sampled_from(ir.DIV_OPS)), x, c), y)
    elif k == 3:
        return ("bne", (cmp_, x, y), p)
    elif k == 4:
        return ("beq", ("not", p), (cmp_, x, c))
    elif k == 5:
        t = ("ite", (cmp_, x, c), ("ite", p, x, y), ("ite", q, y, c))
    elif k == 6:
        t = ("zext", draw(st.integers(1, 8)), x)
        return (cmp_, t, ("const", draw(st.integers(0, (1 << ir.width(t)) - 1)), ir.width(t)))
    elif k == 7:
        t = ("sext", draw(st.integers(1, 8)), x)
        return (cmp_, t, ("const", draw(st.integers(0, (1 << ir.width(t)) - 1)), ir.width(t)))
    elif k == 8:
        t = (draw(st.sampled_from(("rotl", "rotr"))), x, draw(st.sampled_from((c, y))))
    elif k == 9 and n >= 2:
        hi = draw(st.integers(0, 2 * n - 1))
        lo = draw(st.integers(0, hi))
        return ("eq", ("extract", hi, lo, ("concat", x, y)), ("const", draw(st.integers(0, (1 << (hi - lo + 1)) - 1)), hi - lo + 1))
    elif k == 10:
        return ("and", (cmp_, x, c), ("or", ("not", (cmp_, x, c)), p), ("bne", p, q))
    elif k == 11:
        t = ("bvsub", ("bvadd", x, c), ("bvadd", y, c))
    elif k == 12:
        t = (draw(st.sampled_from(("bvshl", "bvlshr", "bvashr"))), x, c)
    elif k == 13:
        t = ("bvmul", x, c)
        return (cmp_, t, y)
    elif k == 14:
        return ("bite", (cmp_, x, y), p, ("not", p))
    else:
        t = ("bvneg", ("bvnot", ("bvxor", x, c)))
    if draw(st.booleans()):
        return (cmp_, t, draw(st.sampled_from((y, c))))
    return t


def _fp_envs(t):
    vars_ = fc.variables(fc.T(t))
    parts = {}
    for name, info in vars_.items():
        if info[0] == "fp":
            parts[name] = st.sampled_from(fc.pool(info[1]))
        elif info[0] == "bv":
            parts[name] = fc.int_consts(info[1]).map(lambda c: c[1])
        else:
            parts[name] = st.booleans()
    return st.lists(st.fixed_dictionaries(parts), min_size=6, max_size=6)


N = {"quick": {"bv": 260, "shape": 420, "fp": 130, "str": 130, "set": 40, "hist": 90}, "thorough": {"bv": 6000, "shape": 9000, "fp": 3000, "str": 3000, "set": 800, "hist": 2500}}
HIST_CONFIGS = [{"frontend": "Solver"}, {"frontend": "SolverComposite"}, {"frontend": "SolverCacheless"}, {"frontend": "Solver", "reuse": True}]


def fp_shapes():
    """Every FP operator claripy can express, applied directly to variables (so that each Z3 decl kind of the FP theory that the
    simplifier can hand back is abstracted at least once per run), alone and under a Boolean / ite context."""
    out = []
    for srt in fc.SORTS:
        o = "DOUBLE" if srt == "FLOAT" else "FLOAT"
        x, y = ("fvar", f"f0_{srt[0]}", srt), ("fvar", f"f1_{srt[0]}", srt)
        n = fc.BITS[srt]
        b = ("var", f"b0_{n}", n)
        p = ("bvar", "p0")
        base = [("isnan", x), ("isinf", x), ("fabs", x), ("fneg", x), ("to_ieee", x), ("to_fp_bits", b, srt)]
        for cmp_ in fc.FP_CMP:
            base.append((cmp_, x, y))
            # against every special constant, on either side: Z3 rewrites e.g. x < +oo into (in)equalities with NaN / oo
            for bits in fc.special_bits(srt):
                base.append((cmp_, x, ("fconst", bits, srt)))
                base.append((cmp_, ("fconst", bits, srt), x))
        for rm in fc.RMS:
            for op in fc.FP_ARITH:
                base.append((op, rm, x, y))
            base += [("fsqrt", rm, x), ("to_fp_fp", rm, x, o), ("to_fp_sbv", rm, b, srt), ("to_fp_ubv", rm, b, srt), ("to_sbv", rm, x, 32), ("to_ubv", rm, x, 8)]
        base.append(("ffp", ("var", "b0_1", 1), ("var", f"b1_{fc.EB[srt]}", fc.EB[srt]), ("var", f"b2_{fc.SB[srt] - 1}", fc.SB[srt] - 1)))
        # conversions through very narrow bit-vectors (Z3's tactics fail on some of these terms)
        for w in (1, 2):
            for rm in ("RNE", "RTP"):
                base.append(("flt", x, ("to_fp_sbv", "RNE", ("to_ubv", rm, x, w), srt)))
                base.append(("fge", ("to_fp_ubv", rm, ("to_sbv", "RTZ", x, w), srt), y))
        for t in base:
            out.append(t)
            k = fc.kind(t)
            if k == "bool":
                out.append(("fite", t, x, y))
                out.append(("isnan", ("fite", t, x, ("fneg", y))))
            elif k == "fp":
                out.append(("isnan", t))
                out.append(("isinf", t))
                out.append(("feq", t, x) if fc.fsort(t) == srt else ("isinf", ("fneg", t)))
            else:
                out.append(("eq", t, ("const", 1, t[3] if t[0] in ("to_sbv", "to_ubv") else n)))
    return out


def shards(tier, seed):
    out = [{"kind": "fpshapes"}]
    for kind, per in (("bv", 3), ("shape", 4), ("fp", 2), ("str", 2), ("set", 1)):
        for i in range(per):
            out.append({"kind": kind, "i": i, "n": N[tier][kind], "hseed": seed * 1000 + 900 + len(out)})
    for cfg in HIST_CONFIGS:
        out.append({"kind": "hist", **cfg, "i": 0, "n": N[tier]["hist"], "hseed": seed * 1000 + 900 + len(out)})
    return out


def run_shard(shard, ctx):
    sem_z3.set_timeout(2000 if ctx.tier == "quick" else 10000)
    kind = shard["kind"]

    def record(case, fails, info, sample):
        ctx.case(case, info["nontrivial"], [f"kind:{kind}", *info["classes"]], sample=sample)
        if info.get("newops"):
            lst = ctx.extra.setdefault("operators_only_in_simplified_output", [])
            for o in sorted(info["newops"]):
                if o not in lst:
                    lst.append(o)
        seen = set()
        for fp, obs in fails:
            if fp not in seen:
                seen.add(fp)
                ctx.fail(fp, case, obs)

    if kind in ("bv", "shape"):
        cfg = gen.cfg_for(ctx.tier)
        strat = st.one_of(gen.any_tree(cfg, max_depth=4), gen.template(cfg)) if kind == "bv" else z3_shapes(cfg)

        def body(v):
            tree, spell = v
            exprcheck.reset_caches()
            case = {"kind": "bv", "tree": tree, "spell": spell}
            fails, info = run_case(case)
            record(case, fails, info, {"tree": ir.pretty(ir.T(tree)), "spell": spell})

        hyp.run(st.tuples(strat, st.integers(0, 2**16)), shard["n"], shard["hseed"], body, ctx)
        return
    if kind == "fpshapes":
        n = 0
        for t in fp_shapes():
            if ctx.out_of_time():
                return
            case = {"kind": "fp", "tree": t, "spell": 0, "envs": fc.envs_for(t, None, extra=0)}
            fails, info = run_case(case)
            n += 1
            record(case, fails, info, {"tree": fc.pretty(fc.T(t))})
        ctx.extra["enumerated_fp_operator_shapes"] = n
        return
    if kind == "fp":
        @st.composite
        def strat(draw):
            t = draw(fc.any_tree(3, symbolic="mostly"))
            return {"kind": "fp", "tree": t, "spell": draw(st.integers(0, 2**16)), "envs": fc.envs_for(t, draw)}

        def body(case):
            exprcheck.reset_caches()
            fails, info = run_case(case)
            record(case, fails, info, {"tree": fc.pretty(fc.T(case["tree"]))})

        hyp.run(strat(), shard["n"], shard["hseed"], body, ctx)
        return
    if kind == "str":
        from . import c03

        @st.composite
        def strat(draw):
            t = draw(sc.any_tree(3, symbolic=False))
            t2, env = c03._symbolize(draw, t)
            envs = [env, {k: draw(sc.texts(4)) for k in env}, {k: "" for k in env}]
            return {"kind": "str", "tree": t2, "spell": draw(st.integers(0, 2**16)), "envs": envs}

        def body(case):
            exprcheck.reset_caches()
            fails, info = run_case(case)
            record(case, fails, info, {"tree": sc.pretty(sc.T(case["tree"])), "envs": case["envs"][:1]})

        hyp.run(strat(), shard["n"], shard["hseed"], body, ctx)
        return
    if kind == "set":
        from . import c26

        @st.composite
        def strat(draw):
            if draw(st.booleans()):
                c = draw(c26.fp_case())
                cons = c["constraints"]
                vars_ = {}
                for t in cons:
                    vars_.update(fc.variables(fc.T(t)))
                return {"kind": "set", "fam": "fp", "constraints": cons, "envs": fc.envs_for(None, draw, vars_=vars_)}
            c = draw(c26.str_case())
            cons = c["constraints"]
            names = sorted({v for t in cons for v in sc.svars(sc.T(t))})
            envs = [{k: draw(sc.texts(5)) for k in names} for _ in range(6)]
            return {"kind": "set", "fam": "str", "constraints": cons, "envs": envs}

        def body(case):
            exprcheck.reset_caches()
            fails, info = run_case(case)
            mod = fc if case["fam"] == "fp" else sc
            record(case, fails, info, {"fam": case["fam"], "constraints": [mod.pretty(mod.T(c)) for c in case["constraints"]]})

        hyp.run(strat(), shard["n"], shard["hseed"], body, ctx)
        return
    # solver histories with simplify() weighted up
    @st.composite
    def hist(draw):
        h = draw(sm.histories(("core", "maint", "branch"), max_steps=30))
        out = []
        for stp in h:
            out.append(stp)
            if stp["op"] == "add" and draw(st.integers(0, 2)) == 0:
                out.append({"op": "simplify", "s": stp["s"]})
        return out

    def body(h):
        exprcheck.reset_caches()
        case = {"kind": "history", "frontend": shard["frontend"], "reuse": shard.get("reuse", False), "history": h}
        res = sp.run_case(case)
        n_simpl = sum(1 for s_ in h if s_["op"] == "simplify")
        sp.record(ctx, case, res, n_simpl > 0 and res.stats.get("maint", 0) > 0, owns=None, extra_classes=("kind:hist", f"simplify-steps:{min(n_simpl, 5)}"))

    hyp.run(hist(), shard["n"], shard["hseed"], body, ctx)


def shrink(case, obs, fp, matcher, deadline):
    if "history" in case:
        return sp.shrink(case, obs, fp, matcher, deadline)
    if case["kind"] != "bv":
        return case, obs

    def still(c):
        for f, o in replay(c):
            if f == fp and matcher.match(f, c, o) is None:
                return o
        return None

    def cands(c):
        for t in shrinker.tree_candidates(ir.T(c["tree"])):
            yield {**c, "tree": t}
        if c.get("spell"):
            yield {**c, "spell": 0}

    c2, o2 = shrinker.greedy({**case, "tree": ir.T(case["tree"])}, cands, still, deadline)
    return c2, (o2 if o2 is not None else obs)


KNOWN_PREDICATES = {}
