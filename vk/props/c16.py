"""C16 -- unsat cores are unsatisfiable subsets of the tracked constraints."""

from __future__ import annotations

from . import _solverprop as sp

ID = "C16"
LEVEL = "exploration"
RULE = (
    "Histories on solvers created with track=True (Solver, SolverComposite, SolverHybrid): constraints are added in generated orders "
    "until the brute-force model set is empty (pairwise contradictions such as x==1, x==2 that trigger the cheap contradiction cache, "
    "contradictions needing three constraints, contradictions inside one add([...]), contradictions spread over two composite "
    "children, false itself), with queries, branch and unsat_core() calls interleaved; half of the shards run directed histories "
    "(nine contradiction families, members batched or one per add among satisfiable bystanders, a query and / or up to two branches "
    "before the last member, unsat_core() on every live solver twice and after a further add) - also on satisfiable solvers and with extra "
    "constraints. Oracle: satisfiable => empty result; unsatisfiable => a sequence whose every element is a claripy Bool that was "
    "passed to add() on that solver (or is one of the extras), and whose conjunction has an empty model set by brute force. "
    "Non-trivial: unsat_core() called on a solver whose model set is empty; distinct by SHA-1 of the history."
)
ASSUMPTIONS = ["membership is judged by AST identity/hash of the constraints the harness added (hash-consing makes equal constraints identical)"]
BUDGET_S = {"quick": 240, "thorough": 3000}
CONFIGS = [{"frontend": f} for f in ("Solver-track", "SolverComposite-track", "SolverHybrid-track")]
GROUPS_A = ("core-track", "sat-heavy", "branch")
GROUPS_B = ("core-track", "core", "branch", "maint")


def shards(tier, seed):
    return sp.shards_for(tier, seed, 1600, CONFIGS, 200, 5000, per_quick=4, per_thorough=5)


def owns(fp):
    return ":unsat_core:" in fp


def nontrivial(res):
    return bool(res.stats.get("core_on_unsat"))


def run_shard(shard, ctx):
    from .. import solver_machine as sm

    # odd shards: directed histories (every route to unsatisfiability x batching x query / branch before the last member)
    sp.run_random(shard, ctx, GROUPS_A if shard["i"] % 4 == 0 else GROUPS_B, nontrivial, owns=owns, strategy=sm.scenario_core() if shard["i"] % 2 == 1 else None)


def replay(case):
    return sp.replay(case, owns)


shrink = sp.shrink
KNOWN_PREDICATES = {}


def _pred_rewritten(case, obs):
    # The clause itself says: the reported element is one of the solver's *current* constraints and none of the added
    # ones.  That is the open finding only if the current constraints can differ from the added ones because they were
    # simplified: some step before the failing unsat_core() must be simplify() or a query that implies it
    # (SimplifyHelperMixin: min, max, eval / batch_eval with n > 1).  Without such a step (e.g. add([false@tag]);
    # unsat_core() answering plain false) the failure is something else and is reported.
    k = obs.get("step")
    if k is None:
        return False
    for st_ in case["history"][:k]:
        if st_["op"] in ("simplify", "min", "max"):
            return True
        if st_["op"] in ("eval", "batch", "eval_to_ast") and st_.get("n", 1) > 1:
            return True
    return False


KNOWN_PREDICATES = {"core_element_is_rewritten_constraint": _pred_rewritten}
