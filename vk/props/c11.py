"""C11 -- Solver answers are correct after any sequence of operations."""

from __future__ import annotations

import itertools

from hypothesis import strategies as st

from .. import exprcheck, hyp, solver_machine as sm, str_machine as strm

ID = "C11"
LEVEL = "exploration"
RULE = (
    "Histories (<=40 steps) of add / satisfiable / eval / batch_eval / min / max (signed+unsigned, with and without extra "
    "constraints) / solution / is_true / is_false / eval_to_ast / simplify / downsize / finalize / branch on Solver and "
    "SolverCacheless, solver reuse off and on, over 4 four-bit variables and one Boolean; plus every sequence of length <=3 "
    "(quick) / <=4 (thorough) over a fixed 10-operation alphabet (bounded-exhaustive). Oracle: brute-force model set over all 2^17 "
    "assignments (numpy), maintained from the constraints the harness added; every answer is checked against it after every step. "
    "String solving: histories (<=14 steps) on SolverStrings, Solver and SolverCacheless over one or two string variables, each first "
    "confined to a generated finite domain of 2-9 literals (NUL, backslash, escape-looking text, regex metacharacters, non-ASCII and "
    "astral code points included), with constraints and query expressions over concat / substr / replace / length / index-of / to-int / "
    "from-int / contains / prefix / suffix / equality, extras, branch, simplify, downsize; oracle: the explicit list of domain "
    "assignments filtered by the constraints with the Python SMT-LIB string semantics; a query on which Z3's sequence solver gives up "
    "(claripy solver error, or an overrun interrupted by the harness watchdog) is counted, not judged, and the history continues; a failure is reported only if one of two immediate re-runs of the case on a "
    "fresh solver shows it again (otherwise counted as unreproduced). "
    "Non-trivial: >=2 queries on the same expression separated by an add or differing in signed/extra, or a query after an "
    "unsat-making add, or a query with extra constraints; distinct by SHA-1 of (frontend, reuse, history)."
)
ASSUMPTIONS = [
    "latitude per DESIGN 3.2: eval may return any min(n,|V|) distinct feasible values; empty result or UnsatError when no value exists; "
    "semantically constant query expressions may be answered without the solver even on an unsatisfiable solver",
    "the brute-force reference is exact only within the 17-bit variable budget",
]
BUDGET_S = {"quick": 240, "thorough": 3000}
N = {"quick": 250, "thorough": 5000}
FRONTENDS = ("Solver", "SolverCacheless")
STR_FRONTENDS = ("SolverStrings", "Solver", "SolverCacheless")
N_STR = {"quick": 22, "thorough": 500}


def shards(tier, seed):
    out = []
    for fe in FRONTENDS:
        for reuse in (False, True):
            for i in range(3 if tier == "quick" else 4):
                out.append({"kind": "random", "frontend": fe, "reuse": reuse, "i": i, "n": N[tier], "hseed": seed * 1000 + 600 + len(out)})
    for fe in STR_FRONTENDS:
        for i in range(4 if tier == "quick" else 8):
            out.append({"kind": "str", "frontend": fe, "reuse": False, "i": i, "n": N_STR[tier], "hseed": seed * 1000 + 660 + len(out)})
    L = 3 if tier == "quick" else 4
    for fe in FRONTENDS:
        for first in range(len(ALPHABET)):
            out.append({"kind": "enum", "frontend": fe, "reuse": False, "first": first, "len": L})
    return out


def _x():
    return ("var", "a", sm.W)


ALPHABET = [
    {"op": "add", "cs": [("ule", _x(), ("const", 12, 4))]},
    {"op": "add", "cs": [("or", ("eq", _x(), ("const", 3, 4)), ("eq", _x(), ("const", 15, 4)))]},
    {"op": "eval", "e": _x(), "n": 1, "extra": []},
    {"op": "eval", "e": _x(), "n": 17, "extra": []},
    {"op": "min", "e": _x(), "signed": False, "extra": []},
    {"op": "max", "e": _x(), "signed": False, "extra": []},
    {"op": "min", "e": _x(), "signed": True, "extra": []},
    {"op": "max", "e": _x(), "signed": True, "extra": []},
    {"op": "min", "e": _x(), "signed": False, "extra": [("ugt", _x(), ("const", 3, 4))]},
    {"op": "solution", "e": _x(), "v": 7, "extra": []},
]


def run_history(frontend, reuse, history):
    return sm.Machine(frontend, reuse=reuse).run(history)


def classify(res):
    st_ = res.stats
    nontrivial = st_["repeat_queries"] > 0 or st_["unsat_reached"] > 0 or st_["extras"] > 0
    classes = []
    for k in ("repeat_queries", "unsat_reached", "extras", "branches", "maint", "bridging", "pickles"):
        if st_.get(k):
            classes.append("has:" + k)
    return nontrivial, classes


def replay(case):
    if "domains" in case:
        res = strm.run_case(case["frontend"], case)
        out = {}
        for fp, obs in res.fails:
            out.setdefault(fp, obs)
        return list(out.items())
    res = run_history(case["frontend"], case.get("reuse", False), case["history"])
    out = {}
    for fp, obs in res.fails:
        out.setdefault(fp, obs)
    return list(out.items())


def record(ctx, case, res, sample_extra=None):
    nontrivial, classes = classify(res)
    ctx.case(case, nontrivial, [f"frontend:{case['frontend']}", f"reuse:{case.get('reuse', False)}", *classes],
             sample={"frontend": case["frontend"], "reuse": case.get("reuse", False), "history": case["history"][:10], "n_steps": len(case["history"]), **(sample_extra or {})})
    ctx.count("steps", res.steps_run)
    for k, v in res.stats.items():
        ctx.count("stat:" + k, v)
    seen = set()
    for fp, obs in res.fails:
        if fp not in seen:
            seen.add(fp)
            ctx.fail(fp, case, obs)


def _reproduces_in_fresh_process(case, fp):
    import json
    import os
    import subprocess
    import sys
    import tempfile

    verif_dir = os.path.dirname(os.path.dirname(os.path.dirname(os.path.abspath(__file__))))
    with tempfile.TemporaryDirectory(prefix="vk-c11-") as d:
        path = os.path.join(d, "case.json")
        with open(path, "w") as f:
            json.dump(case, f)
        code = ("import sys, json; from vk import env; env.setup_paths(); env.import_claripy(); from vk.props import c11; "
                "case = json.load(open(sys.argv[1])); print('FPS=' + json.dumps([f for f, _o in c11.replay(case)]))")
        env_ = dict(os.environ)
        env_["PYTHONPATH"] = verif_dir + (os.pathsep + env_["PYTHONPATH"] if env_.get("PYTHONPATH") else "")
        for _ in range(2):
            try:
                p = subprocess.run([sys.executable, "-B", "-c", code, path], cwd=verif_dir, env=env_, timeout=600, capture_output=True, text=True)
            except subprocess.TimeoutExpired:
                continue
            for line in p.stdout.splitlines():
                if line.startswith("FPS=") and fp in json.loads(line[4:]):
                    return True
    return False


def record_str(ctx, case, res):
    st_ = res.stats
    nontrivial = st_["answers_checked"] >= 2 and st_["adds"] >= 2
    classes = [f"frontend:{case['frontend']}", "strings"] + [f"has:{k}" for k in ("repeat_queries", "unsat_reached", "extras", "branches", "maint", "solver_gave_up", "exhausting_evals") if st_.get(k)]
    ctx.case(case, nontrivial, classes, sample={"frontend": case["frontend"], "domains": case["domains"], "history": [
        {**s_, **({"e": strm.pretty(strm.T(s_["e"]))} if "e" in s_ else {}), **({"cs": [strm.pretty(strm.T(c)) for c in s_["cs"]]} if "cs" in s_ else {}),
         **({"es": [strm.pretty(strm.T(c)) for c in s_["es"]]} if "es" in s_ else {}), **({"extra": [strm.pretty(strm.T(c)) for c in s_["extra"]]} if s_.get("extra") else {})}
        for s_ in case["history"][:8]]})
    ctx.count("steps", res.steps_run)
    for k, v in st_.items():
        ctx.count("strstat:" + k, v)
    seen = set()
    for fp, obs in res.fails:
        if fp in seen:
            continue
        seen.add(fp)
        # Z3's sequence solver is driven with timeouts and, rarely, the watchdog: a report has to come with an input that
        # reproduces, so a failure counts only if one of two immediate re-runs on a fresh solver shows it again
        again = False
        for _ in range(2):
            exprcheck.reset_caches()
            if any(f == fp for f, _o in strm.run_case(case["frontend"], case).fails):
                again = True
                break
        # ... and it has to show in a fresh interpreter as well, from the saved input alone: this process may have had Z3 calls
        # interrupted by the watchdog earlier, after which the shared Z3 context is not to be trusted (a thorough-tier run
        # under load reported an impossible model once, which no later replay showed)
        if again and not _reproduces_in_fresh_process(case, fp):
            again = False
            ctx.count("unreproduced_in_fresh_process")
        if again:
            ctx.fail(fp, case, obs)
        else:
            ctx.count("unreproduced_string_failure")
            ctx.count("unreproduced:" + fp.split(":")[-1])


def run_shard(shard, ctx):
    fe, reuse = shard["frontend"], shard["reuse"]
    if shard["kind"] == "str":
        def sbody(c):
            exprcheck.reset_caches()
            case = {"frontend": fe, **c}
            record_str(ctx, case, strm.run_case(fe, case))

        hyp.run(strm.cases(), shard["n"], shard["hseed"], sbody, ctx)
        return
    if shard["kind"] == "enum":
        n = 0
        first = ALPHABET[shard["first"]]
        for L in range(1, shard["len"] + 1):
            for rest in itertools.product(ALPHABET, repeat=L - 1):
                if ctx.out_of_time():
                    return
                hist = [dict(first), *[dict(x) for x in rest]]
                exprcheck.reset_caches()
                res = run_history(fe, reuse, hist)
                record(ctx, {"frontend": fe, "reuse": reuse, "history": hist}, res)
                n += 1
        ctx.extra["enumerated_sequences"] = n
        ctx.extra["exhaustive"] = True
        ctx.extra["exhaustive_subdomain"] = f"all operation sequences of length <= {shard['len']} over the 10-operation alphabet, on Solver and SolverCacheless"
        return

    def body(hist):
        exprcheck.reset_caches()
        res = run_history(fe, reuse, hist)
        record(ctx, {"frontend": fe, "reuse": reuse, "history": hist}, res)

    strat = sm.histories(("core", "maint", "branch"))
    if shard["i"] == 2:
        # directed scenarios: exhaust two variables, then a constraint over both; refutable extras, then the same query without
        strat = st.one_of(sm.scenario_exhaust_then_bridge(), sm.scenario_extras_do_not_stick(), sm.scenario_constant_in_list())
    hyp.run(strat, shard["n"], shard["hseed"], body, ctx)


def shrink(case, obs, fp, matcher, deadline):
    if "domains" in case:
        known = (lambda c, f, o: matcher.match(f, c, o) is not None) if matcher is not None else None
        c2, o2 = strm.shrink_case(case["frontend"], case, fp, deadline, is_known=known)
        return c2, (o2 if o2 is not None else obs)
    h, o = sm.shrink_history(case["frontend"], case["history"], fp, deadline, reuse=case.get("reuse", False))
    return {**case, "history": h}, (o if o is not None else obs)


KNOWN_PREDICATES = {}
