"""C11 -- Solver answers are correct after any sequence of operations."""

from __future__ import annotations

import itertools

from hypothesis import strategies as st

from .. import exprcheck, hyp, solver_machine as sm

ID = "C11"
LEVEL = "exploration"
RULE = (
    "Histories (<=40 steps) of add / satisfiable / eval / batch_eval / min / max (signed+unsigned, with and without extra "
    "constraints) / solution / is_true / is_false / eval_to_ast / simplify / downsize / finalize / branch on Solver and "
    "SolverCacheless, solver reuse off and on, over 4 four-bit variables and one Boolean; plus every sequence of length <=3 "
    "(quick) / <=4 (thorough) over a fixed 10-operation alphabet (bounded-exhaustive). Oracle: brute-force model set over all 2^17 "
    "assignments (numpy), maintained from the constraints the harness added; every answer is checked against it after every step. "
    "Non-trivial: >=2 queries on the same expression separated by an add or differing in signed/extra, or a query after an "
    "unsat-making add, or a query with extra constraints; distinct by SHA-1 of (frontend, reuse, history)."
)
ASSUMPTIONS = [
    "latitude per DESIGN 3.2: eval may return any min(n,|V|) distinct feasible values; empty result or UnsatError when no value exists; "
    "semantically constant query expressions may be answered without the solver even on an unsatisfiable solver",
    "the brute-force reference is exact only within the 17-bit variable budget",
]
BUDGET_S = {"quick": 240, "thorough": 3000}
N = {"quick": 250, "thorough": 5000}
FRONTENDS = ("Solver", "SolverCacheless")


def shards(tier, seed):
    out = []
    for fe in FRONTENDS:
        for reuse in (False, True):
            for i in range(3 if tier == "quick" else 4):
                out.append({"kind": "random", "frontend": fe, "reuse": reuse, "i": i, "n": N[tier], "hseed": seed * 1000 + 600 + len(out)})
    L = 3 if tier == "quick" else 4
    for fe in FRONTENDS:
        for first in range(len(ALPHABET)):
            out.append({"kind": "enum", "frontend": fe, "reuse": False, "first": first, "len": L})
    return out


def _x():
    return ("var", "a", sm.W)


ALPHABET = [
    {"op": "add", "cs": [("ule", _x(), ("const", 12, 4))]},
    {"op": "add", "cs": [("or", ("eq", _x(), ("const", 3, 4)), ("eq", _x(), ("const", 15, 4)))]},
    {"op": "eval", "e": _x(), "n": 1, "extra": []},
    {"op": "eval", "e": _x(), "n": 17, "extra": []},
    {"op": "min", "e": _x(), "signed": False, "extra": []},
    {"op": "max", "e": _x(), "signed": False, "extra": []},
    {"op": "min", "e": _x(), "signed": True, "extra": []},
    {"op": "max", "e": _x(), "signed": True, "extra": []},
    {"op": "min", "e": _x(), "signed": False, "extra": [("ugt", _x(), ("const", 3, 4))]},
    {"op": "solution", "e": _x(), "v": 7, "extra": []},
]


def run_history(frontend, reuse, history):
    return sm.Machine(frontend, reuse=reuse).run(history)


def classify(res):
    st_ = res.stats
    nontrivial = st_["repeat_queries"] > 0 or st_["unsat_reached"] > 0 or st_["extras"] > 0
    classes = []
    for k in ("repeat_queries", "unsat_reached", "extras", "branches", "maint", "bridging", "pickles"):
        if st_.get(k):
            classes.append("has:" + k)
    return nontrivial, classes


def replay(case):
    res = run_history(case["frontend"], case.get("reuse", False), case["history"])
    out = {}
    for fp, obs in res.fails:
        out.setdefault(fp, obs)
    return list(out.items())


def record(ctx, case, res, sample_extra=None):
    nontrivial, classes = classify(res)
    ctx.case(case, nontrivial, [f"frontend:{case['frontend']}", f"reuse:{case.get('reuse', False)}", *classes],
             sample={"frontend": case["frontend"], "reuse": case.get("reuse", False), "history": case["history"][:10], "n_steps": len(case["history"]), **(sample_extra or {})})
    ctx.count("steps", res.steps_run)
    for k, v in res.stats.items():
        ctx.count("stat:" + k, v)
    seen = set()
    for fp, obs in res.fails:
        if fp not in seen:
            seen.add(fp)
            ctx.fail(fp, case, obs)


def run_shard(shard, ctx):
    fe, reuse = shard["frontend"], shard["reuse"]
    if shard["kind"] == "enum":
        n = 0
        first = ALPHABET[shard["first"]]
        for L in range(1, shard["len"] + 1):
            for rest in itertools.product(ALPHABET, repeat=L - 1):
                if ctx.out_of_time():
                    return
                hist = [dict(first), *[dict(x) for x in rest]]
                exprcheck.reset_caches()
                res = run_history(fe, reuse, hist)
                record(ctx, {"frontend": fe, "reuse": reuse, "history": hist}, res)
                n += 1
        ctx.extra["enumerated_sequences"] = n
        ctx.extra["exhaustive"] = True
        ctx.extra["exhaustive_subdomain"] = f"all operation sequences of length <= {shard['len']} over the 10-operation alphabet, on Solver and SolverCacheless"
        return

    def body(hist):
        exprcheck.reset_caches()
        res = run_history(fe, reuse, hist)
        record(ctx, {"frontend": fe, "reuse": reuse, "history": hist}, res)

    strat = sm.histories(("core", "maint", "branch"))
    if shard["i"] == 2:
        # directed scenarios: exhaust two variables, then a constraint over both; refutable extras, then the same query without
        strat = st.one_of(sm.scenario_exhaust_then_bridge(), sm.scenario_extras_do_not_stick())
    hyp.run(strat, shard["n"], shard["hseed"], body, ctx)


def shrink(case, obs, fp, matcher, deadline):
    h, o = sm.shrink_history(case["frontend"], case["history"], fp, deadline, reuse=case.get("reuse", False))
    return {**case, "history": h}, (o if o is not None else obs)


KNOWN_PREDICATES = {}
