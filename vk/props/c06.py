"""C06 -- structurally equal expressions are one object; different ones never merge."""

from __future__ import annotations

import gc
import math
import pickle
import struct

import claripy
from hypothesis import strategies as st

from .. import exprcheck, hyp, shrink as shrinker

ID = "C06"
LEVEL = "exploration"
RULE = (
    "Histories of <=40 steps over a pool of live ASTs: build leaves (BVV/BVS/BoolS/BoolV/FPV/FPS/StringV/StringS with colliding-"
    "looking values: -0.0/0.0, NaN, 1 vs True, widths), apply operations to pool members, annotate with built-in and user "
    "annotation classes whose field values are chosen to collide under Python's hash (-1/-2, k and k+2^61-1, tuples of them), "
    "edit/remove annotations, drop+gc, pickle/unpickle, re-attach the same annotation instances, rebuild earlier steps. Invariant after every step, over all "
    "pairs of live pool members: `a is b` iff deep structural equality (type, op, width, args recursively with floats by bit "
    "pattern and ints/bools distinguished, annotations by class and field contents - never by hash); and for non-rewriting "
    "constructors the returned object's op/args/width/annotations equal what was requested. Non-trivial: the history contains two "
    "annotations or raw args with equal Python hash and different content, or a drop+gc+rebuild; distinct by SHA-1 of the step list."
)
ASSUMPTIONS = ["annotation identity is class + field contents for classes that define fields (built-ins and the harness's user classes define __eq__/__hash__ over all fields)"]
BUDGET_S = {"quick": 200, "thorough": 2400}
N = {"quick": 1500, "thorough": 40000}
M61 = (1 << 61) - 1


def shards(tier, seed):
    return [{"i": i, "n": N[tier], "hseed": seed * 1000 + 300 + i} for i in range(16)]


class UserAnno(claripy.Annotation):
    """A user annotation written the way the docs suggest: value semantics over all fields."""

    def __init__(self, a, b, elim=False, reloc=False):
        self.a, self.b, self._elim, self._reloc = a, b, elim, reloc

    @property
    def eliminatable(self):
        return self._elim

    @property
    def relocatable(self):
        return self._reloc

    def __eq__(self, o):
        return type(o) is type(self) and (self.a, self.b, self._elim, self._reloc) == (o.a, o.b, o._elim, o._reloc)

    def __hash__(self):
        return hash((self.a, self.b, self._elim, self._reloc))

    def __repr__(self):
        return f"<UserAnno {self.a!r} {self.b!r} e={self._elim} r={self._reloc}>"


class UserAnno2(UserAnno):
    pass


class PlainAnno(claripy.Annotation):
    """A user annotation without __eq__/__hash__: identity semantics (each instance is its own annotation)."""

    def __init__(self, tag):
        self.tag = tag

    @property
    def eliminatable(self):
        return False

    def __repr__(self):
        return f"<PlainAnno {self.tag!r} #{id(self):x}>"


COLLIDING_INTS = [-1, -2, -1, -2, 0, M61, 1, 1 + M61, 0, M61, 2 * M61, 7]


def make_anno(spec):
    kind = spec[0]
    if kind == "si":
        return claripy.annotation.StridedIntervalAnnotation(spec[1], spec[2], spec[3])
    if kind == "region":
        return claripy.annotation.RegionAnnotation(spec[1], spec[2])
    if kind == "uninit":
        return claripy.annotation.UninitializedAnnotation()
    if kind == "user":
        return UserAnno(_tup(spec[1]), _tup(spec[2]), bool(spec[3]), bool(spec[4]))
    if kind == "user2":
        return UserAnno2(_tup(spec[1]), _tup(spec[2]), bool(spec[3]), bool(spec[4]))
    if kind == "saa":
        return claripy.annotation.SimplificationAvoidanceAnnotation()
    if kind == "plain":
        return PlainAnno(spec[1])
    raise ValueError(kind)


def _tup(x):
    return tuple(_tup(y) for y in x) if isinstance(x, (list, tuple)) else x


def anno_key(a):
    """Content identity of an annotation (class + fields), never its hash."""
    d = getattr(a, "__dict__", None)
    if type(a).__eq__ is object.__eq__ and type(a).__hash__ is object.__hash__:
        return ("identity", id(a))
    if d:
        return (type(a).__module__, type(a).__qualname__, tuple(sorted((k, _val_key(v)) for k, v in d.items())))
    if type(a).__eq__ is not object.__eq__:
        return (type(a).__module__, type(a).__qualname__, ())
    return ("identity", id(a))


def _val_key(v):
    if isinstance(v, bool):
        return ("bool", v)
    if isinstance(v, int):
        return ("int", v)
    if isinstance(v, float):
        return ("float", struct.pack("<d", v))
    if isinstance(v, (tuple, list)):
        return ("tuple", tuple(_val_key(x) for x in v))
    return (type(v).__name__, repr(v))


def deep_key(e, memo):
    """A hashable structural key of an AST: equal keys <=> structurally equal."""
    k = id(e)
    if k in memo:
        return memo[k]
    args = []
    for a in e.args:
        if isinstance(a, claripy.ast.Base):
            args.append(("ast", deep_key(a, memo)))
        elif isinstance(a, float):
            args.append(("float", "nan" if math.isnan(a) else struct.pack("<d", a)))
        elif isinstance(a, claripy.fp.FSort):
            args.append(("fsort", a.exp, a.mantissa))
        elif isinstance(a, claripy.fp.RM):
            args.append(("rm", a.value))
        else:
            args.append(_val_key(a))
    # annotations are an ordered tuple in claripy (order and multiplicity are part of the identity)
    r = (type(e).__name__, e.op, e.length, tuple(args), tuple(map(repr, (anno_key(x) for x in e.annotations))))
    memo[k] = r
    return r


def _args_key(e):
    return deep_key(e, {})[3]


# ------------------------------------------------------------------------------------------------
# history interpreter

BV_BIN = ["__add__", "__sub__", "__and__", "__or__", "__xor__", "__mul__", "Concat", "__eq__", "ULT", "SDiv", "LShR", "__lshift__"]


def _pick(pool, idx, pred):
    cands = [x for x in pool if pred(x)]
    return cands[idx % len(cands)] if cands else None


def run_history(steps, collect=None):
    """Executes the step list; returns list of (fp, obs) and info."""
    pool = []
    fails = []
    info = {"collision_pairs": 0, "rebuilds_after_gc": 0, "steps": 0}
    seen_anno = {}
    dropped_any = False
    pickles = []

    def note_anno(a):
        nonlocal info
        try:
            h = hash(a)
        except TypeError:
            return
        k = repr(anno_key(a))
        for k2 in seen_anno.get(h, ()):
            if k2 != k:
                info["collision_pairs"] += 1
        seen_anno.setdefault(h, set()).add(k)

    def do(step, depth=0):
        nonlocal dropped_any
        kind = step[0]
        res = None
        if kind == "bvv":
            v, n = step[1], step[2]
            res = claripy.BVV(v, n)
            if res.op != "BVV" or res.args != (v & ((1 << n) - 1), n) or res.length != n or isinstance(res.args[0], bool):
                fails.append(("merged:leaf:BVV", {"requested": [v, n], "got": repr(res), "got_args": repr(res.args)}))
            if res.annotations:
                fails.append(("merged:leaf-annotations:BVV", {"requested": [v, n], "got_annotations": repr(res.annotations)}))
        elif kind == "bvv_anno":
            v, n = step[1], step[2]
            a = make_anno(step[3])
            note_anno(a)
            res = claripy.BVV(v, n, annotations=(a,))
            if anno_key(a) not in {anno_key(x) for x in res.annotations}:
                fails.append(("merged:annotation:BVV", {"requested": repr(a), "got": repr(res.annotations)}))
        elif kind == "bvs":
            res = claripy.BVS(step[1], step[2], explicit_name=True)
            if res.op != "BVS" or res.args[0] != step[1] or res.length != step[2]:
                fails.append(("merged:leaf:BVS", {"requested": step[1:], "got": repr(res)}))
        elif kind == "bools":
            res = claripy.BoolS(step[1], explicit_name=True)
        elif kind == "boolv":
            res = claripy.BoolV(bool(step[1]))
            if res.args != (bool(step[1]),) or not isinstance(res.args[0], bool):
                fails.append(("merged:leaf:BoolV", {"requested": step[1], "got": repr(res.args)}))
        elif kind == "fpv":
            bits, srt = step[1], step[2]
            sort = claripy.FSORT_FLOAT if srt == "FLOAT" else claripy.FSORT_DOUBLE
            val = struct.unpack("<f", struct.pack("<I", bits))[0] if srt == "FLOAT" else struct.unpack("<d", struct.pack("<Q", bits))[0]
            res = claripy.FPV(val, sort)
            got = res.args[0]
            same = (math.isnan(got) and math.isnan(val)) or struct.pack("<d", got) == struct.pack("<d", val)
            if res.op != "FPV" or not same or res.args[1] != sort:
                fails.append(("merged:leaf:FPV", {"requested": [repr(val), srt], "got": repr(res.args)}))
        elif kind == "fps":
            res = claripy.FPS(step[1], claripy.FSORT_FLOAT if step[2] == "FLOAT" else claripy.FSORT_DOUBLE, explicit_name=True)
        elif kind == "strv":
            res = claripy.StringV(step[1])
            if res.args != (step[1],):
                fails.append(("merged:leaf:StringV", {"requested": step[1], "got": repr(res.args)}))
        elif kind == "strs":
            res = claripy.StringS(step[1], explicit_name=True)
        elif kind == "op":
            opn = step[1]
            a = _pick(pool, step[2], lambda x: isinstance(x, claripy.ast.BV))
            if a is None:
                return None
            b = _pick(pool, step[3], lambda x: isinstance(x, claripy.ast.BV) and (opn == "Concat" or x.length == a.length))
            if b is None:
                return None
            try:
                if opn == "Concat":
                    res = claripy.Concat(a, b)
                elif opn in ("ULT", "SDiv", "LShR"):
                    res = getattr(claripy, opn)(a, b)
                else:
                    res = getattr(a, opn)(b)
            except claripy.errors.ClaripyError:
                return None
        elif kind == "unop":
            a = _pick(pool, step[2], lambda x: isinstance(x, claripy.ast.BV))
            if a is None:
                return None
            try:
                res = {"neg": lambda: -a, "not": lambda: ~a, "zext": lambda: a.zero_extend(step[3] % 9), "sext": lambda: a.sign_extend(step[3] % 9),
                       "extract": lambda: a[(step[3] % a.length) :  0]}[step[1]]()
            except claripy.errors.ClaripyError:
                return None
        elif kind == "boolop":
            a = _pick(pool, step[2], lambda x: isinstance(x, claripy.ast.Bool))
            b = _pick(pool, step[3], lambda x: isinstance(x, claripy.ast.Bool))
            if a is None or b is None:
                return None
            res = {"and": lambda: claripy.And(a, b), "or": lambda: claripy.Or(a, b), "not": lambda: claripy.Not(a),
                   "ite": lambda: claripy.If(a, b, claripy.Not(b))}[step[1]]()
        elif kind == "annotate":
            src = _pick(pool, step[1], lambda x: True)
            if src is None:
                return None
            annos = [make_anno(s) for s in step[2]]
            for a in annos:
                note_anno(a)
            res = src.annotate(*annos)
            want = {repr(anno_key(x)) for x in src.annotations} | {repr(anno_key(x)) for x in annos}
            got = {repr(anno_key(x)) for x in res.annotations}
            if res.op != src.op or _args_key(res) != _args_key(src) or res.length != src.length:
                fails.append(("merged:annotate-structure:" + src.op, {"src": repr(src), "got": repr(res)}))
            elif not (want <= got):
                fails.append((f"merged:annotation:{step[2][0][0]}", {"src": repr(src), "requested": sorted(want), "got": sorted(got)}))
            elif not (got <= want | {repr(anno_key(x)) for c in src.args if isinstance(c, claripy.ast.Base) for x in c.annotations}):
                fails.append((f"merged:annotation-extra:{step[2][0][0]}", {"src": repr(src), "requested": sorted(want), "got": sorted(got)}))
        elif kind == "anno_edit":
            src = _pick(pool, step[2], lambda x: bool(x.annotations))
            if src is None:
                return None
            if step[1] == "clear":
                res = src.clear_annotations()
                if res.annotations != ():
                    fails.append(("merged:clear_annotations", {"src": repr(src), "got": repr(res.annotations)}))
            elif step[1] == "remove_first":
                a0 = src.annotations[0]
                res = src.remove_annotation(a0)
                # claripy removes by == (identity for classes without __eq__); the result is compared by content
                want_t = tuple(repr(anno_key(x)) for x in src.annotations if not (x == a0))
                if tuple(repr(anno_key(x)) for x in res.annotations) != want_t:
                    fails.append(("merged:remove_annotation", {"src": repr(src), "removed": repr(a0), "got": repr(res.annotations)}))
            else:
                new = make_anno(step[3])
                note_anno(new)
                res = src.replace_annotations((new,))
                if {repr(anno_key(x)) for x in res.annotations} != {repr(anno_key(new))}:
                    fails.append(("merged:replace_annotations", {"src": repr(src), "requested": repr(new), "got": repr(res.annotations)}))
            if res.op != src.op or _args_key(res) != _args_key(src):
                fails.append(("merged:anno-edit-structure", {"src": repr(src), "got": repr(res)}))
        elif kind == "pickle":
            src = _pick(pool, step[1], lambda x: True)
            if src is None:
                return None
            try:
                pickles.append(pickle.dumps(src, -1))
            except Exception:  # noqa: BLE001 - harness annotation classes are picklable; anything else is not C06's business
                pass
            return None
        elif kind == "unpickle":
            if not pickles:
                return None
            res = pickle.loads(pickles[step[1] % len(pickles)])
        elif kind == "reorder":
            # the same annotations in another order are another expression: the result must carry them in the order requested
            src = _pick(pool, step[1], lambda x: len(x.annotations) >= 2)
            if src is None:
                return None
            order = list(src.annotations)
            order = order[1:] + order[:1] if step[2] else order[::-1]
            res = src.clear_annotations().annotate(*order)
            if [repr(anno_key(a)) for a in res.annotations] != [repr(anno_key(a)) for a in order]:
                fails.append(("merged:annotation-order:" + src.op, {"src": repr(src), "requested": [repr(anno_key(a)) for a in order], "got": [repr(anno_key(a)) for a in res.annotations]}))
        elif kind == "reannotate":
            src = _pick(pool, step[1], lambda x: bool(x.annotations))
            if src is None:
                return None
            res = src.clear_annotations().annotate(*src.annotations)
            if res is not src and deep_key(res, {}) == deep_key(src, {}):
                fails.append(("duplicated:reannotate:" + src.op, {"src": repr(src), "annotations": repr(src.annotations)}))
        elif kind == "pickle_cycle":
            src = _pick(pool, step[1], lambda x: bool(x.annotations))
            if src is None:
                src = _pick(pool, step[1], lambda x: True)
            if src is None:
                return None
            try:
                data = pickle.dumps(src, -1)
            except Exception:  # noqa: BLE001
                return None
            want_key_shape = (type(src).__name__, src.op, src.length, len(src.annotations))
            pool[:] = [x for x in pool if x is not src]
            del src
            gc.collect()
            dropped_any = True
            info["rebuilds_after_gc"] += 1
            res = pickle.loads(data)
            # (whether the unpickled object is structurally equal to the pickled one is C18's question, not C06's)
            if res.annotations:
                again = res.clear_annotations().annotate(*res.annotations)
                if again is not res and deep_key(again, {}) == deep_key(res, {}):
                    fails.append(("duplicated:after-unpickle:" + res.op, {"unpickled": repr(res), "annotations": repr(res.annotations)}))
            again2 = pickle.loads(data)
            if again2 is not res and deep_key(again2, {}) == deep_key(res, {}):  # (identity-semantics annotations differ per unpickle)
                fails.append(("duplicated:unpickle-twice:" + res.op, {"unpickled": repr(res)}))
        elif kind == "drop":
            if pool:
                del pool[step[1] % len(pool)]
                gc.collect()
                dropped_any = True
            return None
        elif kind == "rebuild":
            if depth > 3 or not steps:
                return None
            j = step[1] % len(steps)
            tgt = steps[j]
            if tgt[0] in ("drop", "rebuild"):
                return None
            if dropped_any:
                info["rebuilds_after_gc"] += 1
            return do(tgt, depth + 1)
        else:
            raise ValueError(kind)
        return res

    def invariant(i):
        # (a function of its own so that no local of it keeps pool members alive across steps)
        memo = {}
        keys = [deep_key(x, memo) for x in pool]
        first = {}
        for x, k in zip(pool, keys, strict=True):
            if k in first:
                if first[k] is not x:
                    fails.append(("duplicated:" + x.op, {"step": i, "a": repr(first[k]), "b": repr(x), "annotations": repr(x.annotations)}))
            else:
                first[k] = x

    def one(step):
        try:
            r = do(step)
        except claripy.errors.ClaripyError:
            r = None
        if r is not None and len(pool) < 40:
            pool.append(r)

    for i, step in enumerate(steps):
        info["steps"] += 1
        one(step)
        invariant(i)
        if fails:
            break
    if collect is not None:
        collect.extend(pool)
    return fails, info


def replay(case):
    fails, _ = run_history([_tup(s) for s in case["steps"]])
    # one failure per fingerprint
    out = {}
    for fp, obs in fails:
        out.setdefault(fp, obs)
    return list(out.items())


# ------------------------------------------------------------------------------------------------
# generator

_ints = st.sampled_from(COLLIDING_INTS)
_field = st.one_of(_ints, st.tuples(_ints, _ints), _ints)
anno_specs = st.one_of(
    st.tuples(st.just("si"), st.sampled_from([1, 1, -1, -2, M61 + 1]), _ints, _ints),
    st.tuples(st.just("region"), st.sampled_from(["stack", "stack", "heap", -1, -2]), _ints),
    st.tuples(st.just("uninit")),
    st.tuples(st.just("user"), _field, _field, st.booleans(), st.booleans()),
    st.tuples(st.just("user2"), _field, _field, st.booleans(), st.booleans()),
    st.tuples(st.just("saa")),
    st.tuples(st.just("plain"), st.sampled_from(["t", -1, -2])),
)
_fbits32 = st.sampled_from([0, 0x80000000, 0x7FC00000, 0x7FC00001, 0x3F800000, 0x3F800001, 0x7F800000, 0xFF800000, 1])
_fbits64 = st.sampled_from([0, 1 << 63, 0x7FF8000000000000, 0x7FF8000000000001, 0x3FF0000000000000, 0x3FF0000000000001, 0x3FF0000020000000, 1])
_idx = st.integers(0, 50)
step_strategy = st.one_of(
    st.tuples(st.just("bvv"), st.sampled_from([0, 1, -1, -2, 255, 256, M61, M61 + 1, 1 << 63]), st.sampled_from([1, 8, 16, 64])),
    st.tuples(st.just("bvv_anno"), st.sampled_from([0, 1, 255]), st.sampled_from([8, 16]), anno_specs),
    st.tuples(st.just("bvs"), st.sampled_from(["x", "y", "x_8", "1"]), st.sampled_from([1, 8, 16, 64])),
    st.tuples(st.just("bools"), st.sampled_from(["x", "p", "True"])),
    st.tuples(st.just("boolv"), st.booleans()),
    st.tuples(st.just("fpv"), _fbits32, st.just("FLOAT")),
    st.tuples(st.just("fpv"), _fbits64, st.just("DOUBLE")),
    st.tuples(st.just("fps"), st.sampled_from(["x", "f"]), st.sampled_from(["FLOAT", "DOUBLE"])),
    st.tuples(st.just("strv"), st.sampled_from(["", "x", "1", "\x01\x00", "x_8"])),
    st.tuples(st.just("strs"), st.sampled_from(["x", "s"])),
    st.tuples(st.just("op"), st.sampled_from(BV_BIN), _idx, _idx),
    st.tuples(st.just("op"), st.sampled_from(BV_BIN), _idx, _idx),
    st.tuples(st.just("unop"), st.sampled_from(["neg", "not", "zext", "sext", "extract"]), _idx, _idx),
    st.tuples(st.just("boolop"), st.sampled_from(["and", "or", "not", "ite"]), _idx, _idx),
    st.tuples(st.just("annotate"), _idx, st.lists(anno_specs, min_size=1, max_size=2).map(tuple)),
    st.tuples(st.just("annotate"), _idx, st.lists(anno_specs, min_size=1, max_size=2).map(tuple)),
    st.tuples(st.just("annotate"), _idx, st.lists(anno_specs, min_size=1, max_size=2).map(tuple)),
    st.tuples(st.just("anno_edit"), st.sampled_from(["clear", "remove_first", "replace"]), _idx, anno_specs),
    st.tuples(st.just("drop"), _idx),
    st.tuples(st.just("pickle"), _idx),
    st.tuples(st.just("pickle_cycle"), _idx),
    st.tuples(st.just("pickle_cycle"), _idx),
    st.tuples(st.just("unpickle"), _idx),
    st.tuples(st.just("reannotate"), _idx),
    st.tuples(st.just("reorder"), _idx, st.booleans()),
    st.tuples(st.just("reorder"), _idx, st.booleans()),
    st.tuples(st.just("rebuild"), _idx),
    st.tuples(st.just("rebuild"), _idx),
)
histories = st.lists(step_strategy, min_size=4, max_size=40).map(tuple)


def run_shard(shard, ctx):
    def body(steps):
        exprcheck.reset_caches()
        case = {"steps": steps}
        fails, info = run_history(list(steps))
        nontriv = info["collision_pairs"] > 0 or info["rebuilds_after_gc"] > 0
        classes = []
        if info["collision_pairs"]:
            classes.append("hash-colliding-annotations")
        if info["rebuilds_after_gc"]:
            classes.append("rebuild-after-gc")
        ctx.case(case, nontriv, classes, sample={"steps": [list(s) for s in steps[:12]], "n_steps": len(steps)})
        ctx.count("steps", info["steps"])
        seenfp = set()
        for fp, obs in fails:
            if fp not in seenfp:
                seenfp.add(fp)
                ctx.fail(fp, case, obs)

    hyp.run(histories, shard["n"], shard["hseed"], body, ctx)


def shrink(case, obs, fp, matcher, deadline):
    def still(steps):
        fails, _ = run_history([_tup(s) for s in steps])
        for f, o in fails:
            if f == fp:
                return o
        return None

    steps, o = shrinker.ddmin_list([_tup(s) for s in case["steps"]], still, deadline)
    return {"steps": steps}, (o if o is not None else obs)


KNOWN_PREDICATES = {}
