"""C22 -- strided-interval joins, meets, widening and queries agree with their members."""

from __future__ import annotations

import itertools

from hypothesis import strategies as st

from .. import hyp, si_gamma as sg
from . import c21

ID = "C22"
LEVEL = "exploration"
RULE = (
    "Operands: every canonical strided interval of width 1-3 (4 / 24 / 136 forms), every PAIR of them for union / least_upper_bound / "
    "pseudo_join / intersection / widen, every TRIPLE at width <= 2 (quick) / <= 3 (thorough, 2.5 M) and a generated sample of triples "
    "and 4-tuples at width 3 for least_upper_bound; width 4 (736 forms): all singles for the queries and a seeded sample (quick) or all "
    "(thorough) pairs; Hypothesis-generated intervals at widths 8-64 with sampled members. Oracle, from the member set gamma computed "
    "from (bits, stride, lb, ub) only: gamma(a U b), gamma(lub(..)), gamma(a.widen(b)) contain gamma of every operand; gamma(a ^ b) "
    "contains gamma(a) & gamma(b); the queries are exact: eval(n) for n in {0,1,2,|g|-1,|g|,|g|+1} lists min(n,|g|) distinct members "
    "(signed and unsigned), min/max(signed) = extremum of gamma in that order, cardinality = |gamma|, solution(v) <=> v in gamma for "
    "every v of the width, is_empty / is_integer / is_top consistent with gamma. Non-trivial: operands overlap partially or one wraps; "
    "for queries the interval wraps or has stride > 1. Enumerated cases are distinct by construction, generated ones by SHA-1."
)
ASSUMPTIONS = [
    "gamma(<n> s[lb,ub]) = {lb + k*s mod 2^n | 0 <= k <= ((ub-lb) mod 2^n) div s}; intervals whose upper bound is off the stride lattice are not canonical and only audited",
    "widen: only containment of both operands is claimed (termination properties are not checked)",
]
BUDGET_S = {"quick": 230, "thorough": 3000}
GRACE_S = 90

PAIR_OPS = {
    "union": lambda a, b: a.union(b),
    "lub": lambda a, b: type(a).least_upper_bound(a, b),
    "pseudo_join": lambda a, b: type(a).pseudo_join(a, b),
    "intersection": lambda a, b: a.intersection(b),
    "widen": lambda a, b: a.widen(b),
}
ALL_PAIR_OPS = tuple(PAIR_OPS)


def _sgn(v, n):
    return v - (1 << n) if v >> (n - 1) else v


def finding_line(case, obs):
    return "|".join([case["op"], str(case["bits"]), str(case.get("sis")), obs.get("result", "?")])


def check_join(op, n, forms_objs, masks):
    """forms_objs: list of SI objects, masks: their gamma.  -> failure or None"""
    from claripy.backends.backend_vsa.strided_interval import StridedInterval

    try:
        if op in PAIR_OPS:
            r = PAIR_OPS[op](*forms_objs)
        else:
            r = StridedInterval.least_upper_bound(*forms_objs)
    except Exception as e:  # noqa: BLE001
        return (f"{op}:exception:{type(e).__name__}", {"result": f"exc:{type(e).__name__}", "exc": repr(e)[:160]})
    if not isinstance(r, StridedInterval):
        return (f"{op}:wrong-result-type", {"result": type(r).__name__})
    if r.bits != n:
        return (f"{op}:wrong-width", {"result": sg.describe(r)})
    got = sg.gamma_mask(r)
    if op == "intersection":
        want = masks[0]
        for m in masks[1:]:
            want &= m
    else:
        want = 0
        for m in masks:
            want |= m
    if want & ~got:
        return (f"{op}:missing-member", {"result": sg.describe(r), "missing": sg.members(want & ~got)[0]})
    return None


def check_queries(n, t):
    """-> list of failures for one interval."""
    a = sg.make(n, t)
    g = sg.gamma_mask(a)
    mem = sg.members(g)
    k = len(mem)
    fails = []

    def bad(clause, **obs):
        fails.append((f"query:{clause}", {"result": clause, **{kk: repr(v)[:80] for kk, v in obs.items()}}))

    try:
        if a.cardinality != k:
            bad("cardinality", got=a.cardinality, want=k)
        if k == 0:
            if a.min() is not None or a.max() is not None or a.eval(3) != [] or not a.is_empty or a.solution(0):
                bad("empty-interval-queries")
            return fails
        for signed in (False, True):
            order = sorted(mem, key=(lambda v: _sgn(v, n)) if signed else None)
            want_min = _sgn(order[0], n) if signed else order[0]
            want_max = _sgn(order[-1], n) if signed else order[-1]
            if a.min(signed=signed) != want_min:
                bad(f"min:{'signed' if signed else 'unsigned'}", got=a.min(signed=signed), want=want_min)
            if a.max(signed=signed) != want_max:
                bad(f"max:{'signed' if signed else 'unsigned'}", got=a.max(signed=signed), want=want_max)
            for cnt in sorted({0, 1, 2, max(k - 1, 0), k, k + 1}):
                r = a.eval(cnt, signed=signed)
                vals = [v % (1 << n) for v in r]
                if len(r) != min(cnt, k):
                    bad(f"eval-count:{'signed' if signed else 'unsigned'}", n=cnt, got=r)
                elif len(set(vals)) != len(vals):
                    bad("eval-duplicates", n=cnt, got=r)
                elif any(not (g >> v) & 1 for v in vals):
                    bad(f"eval-non-member:{'signed' if signed else 'unsigned'}", n=cnt, got=r)
        for v in range(1 << n):
            if bool(a.solution(v)) != bool((g >> v) & 1):
                bad("solution", v=v, got=a.solution(v))
                break
        if a.is_empty != (k == 0):
            bad("is_empty")
        if bool(a.is_integer) != (k == 1):
            bad("is_integer")
        if bool(a.is_top) != (k == (1 << n)) and n > 0:
            bad("is_top", got=a.is_top)
    except Exception as e:  # noqa: BLE001
        fails.append((f"query:exception:{type(e).__name__}", {"result": f"exc:{type(e).__name__}", "exc": repr(e)[:160]}))
    return fails


def check_queries_wide(n, t, probes):
    """Closed forms for a canonical interval of any width: cardinality = span div stride + 1; unsigned / signed extrema from the
    lattice points next to the poles; membership by offset arithmetic; eval(k) for small k."""
    a = sg.make(n, t)
    s_, lb, ub = t
    mod = 1 << n
    span = (ub - lb) % mod
    k = 1 if s_ == 0 else span // s_ + 1
    fails = []

    def bad(clause, **obs):
        fails.append((f"query:{clause}:wide", {"result": clause, **{kk: repr(v)[:80] for kk, v in obs.items()}}))

    def member(v):
        off = (v - lb) % mod
        return off <= span and (s_ == 0 and off == 0 or s_ != 0 and off % s_ == 0)

    def first_at_or_after(p):
        """least member m with (m - p) mod 2^n minimal, i.e. the first lattice point met going up from p (wrapping)."""
        if member(p):
            return p
        off = (p - lb) % mod
        if off > span:
            return lb  # p is outside the arc: the next member going up is the lower bound
        return (lb + (off // s_ + 1) * s_) % mod if (off // s_ + 1) * s_ <= span else lb

    def last_at_or_before(p):
        if member(p):
            return p
        off = (p - lb) % mod
        if off > span:
            return (lb + (span // s_) * s_) % mod if s_ else lb
        return (lb + (off // s_) * s_) % mod

    try:
        if a.cardinality != k:
            bad("cardinality", got=a.cardinality, want=k)
        half = mod >> 1
        want = {(False, "min"): first_at_or_after(0), (False, "max"): last_at_or_before(mod - 1),
                (True, "min"): _sgn(first_at_or_after(half), n), (True, "max"): _sgn(last_at_or_before(half - 1), n)}
        for (signed, which), w in want.items():
            got = getattr(a, which)(signed=signed)
            if got != w:
                bad(f"{which}:{'signed' if signed else 'unsigned'}", got=got, want=w)
        for v in probes:
            if bool(a.solution(v)) != member(v % mod):
                bad("solution", v=v, got=a.solution(v))
                break
        for cnt in (1, 3):
            r = a.eval(cnt)
            if len(r) != min(cnt, k) or len(set(r)) != len(r) or any(not member(v % mod) for v in r):
                bad("eval", n=cnt, got=r)
        if bool(a.is_top) != (k == mod):
            bad("is_top", got=a.is_top)
    except Exception as e:  # noqa: BLE001
        fails.append((f"query:exception:{type(e).__name__}:wide", {"result": f"exc:{type(e).__name__}", "exc": repr(e)[:160]}))
    return fails


def replay(case):
    n = case["bits"]
    if case["op"] == "queries-wide":
        return check_queries_wide(n, tuple(case["sis"][0]), case["probes"])
    if case["op"] == "queries":
        return check_queries(n, tuple(case["sis"][0]))
    objs = [sg.make(n, tuple(t)) for t in case["sis"]]
    if n <= 10:
        masks = [sg.gamma_mask(o) for o in objs]
        f = check_join(case["op"], n, objs, masks)
        return [f] if f else []
    return _wide_join(case)


def _wide_join(case):
    from claripy.backends.backend_vsa.strided_interval import StridedInterval

    n, op = case["bits"], case["op"]
    objs = [sg.make(n, tuple(t)) for t in case["sis"]]
    try:
        r = PAIR_OPS[op](*objs) if op in PAIR_OPS else StridedInterval.least_upper_bound(*objs)
    except Exception as e:  # noqa: BLE001
        return [(f"{op}:exception:{type(e).__name__}:wide", {"result": f"exc:{type(e).__name__}", "exc": repr(e)[:160]})]
    if not isinstance(r, StridedInterval):
        return [(f"{op}:wrong-result-type:wide", {"result": type(r).__name__})]
    samples = case["members"]
    if op == "intersection":
        for v in samples[0]:
            if all(sg.contains(o, v) for o in objs) and not sg.contains(r, v):
                return [(f"{op}:missing-member:wide", {"result": sg.describe(r), "missing": v})]
    else:
        for vs in samples:
            for v in vs:
                if not sg.contains(r, v):
                    return [(f"{op}:missing-member:wide", {"result": sg.describe(r), "missing": v})]
    return []


def shards(tier, seed):
    out = []
    for n in (1, 2, 3):
        out.append({"mode": "pairs", "bits": n, "ops": list(ALL_PAIR_OPS), "part": 0, "parts": 1})
        out.append({"mode": "queries", "bits": n})
    out.append({"mode": "queries", "bits": 4})
    out.append({"mode": "triples", "bits": 2, "part": 0, "parts": 1})
    if tier == "quick":
        for i, op in enumerate(ALL_PAIR_OPS):
            out.append({"mode": "pairs", "bits": 4, "ops": [op], "part": (seed * 5 + i) % 8, "parts": 8})
        for i in range(4):
            out.append({"mode": "triples", "bits": 3, "part": (seed * 3 + i) % 64, "parts": 64})
    else:
        for op in ALL_PAIR_OPS:
            for part in range(2):
                out.append({"mode": "pairs", "bits": 4, "ops": [op], "part": part, "parts": 2})
        for part in range(16):
            out.append({"mode": "triples", "bits": 3, "part": part, "parts": 16})
    for i in range(4 if tier == "quick" else 12):
        out.append({"mode": "random", "i": i, "n": 600 if tier == "quick" else 30000, "hseed": seed * 1000 + 2200 + i})
    return out


@st.composite
def wide_case(draw):
    n = draw(st.sampled_from((8, 8, 16, 32, 64, 56, 64)))
    k = draw(st.integers(0, 12))
    if k >= 10:
        t = draw(c21.wide_si(n))
        probes = c21._sample_members(draw, n, tuple(t)) + [draw(st.integers(0, (1 << n) - 1)) for _ in range(4)] + [(t[1] - 1) % (1 << n), (t[2] + 1) % (1 << n), (t[1] + 1) % (1 << n)]
        return {"op": "queries-wide", "bits": n, "sis": [list(t)], "probes": probes}
    op = draw(st.sampled_from(ALL_PAIR_OPS)) if k < 7 else "lub3"
    cnt = 2 if op != "lub3" else draw(st.integers(3, 4))
    sis, mem = [], []
    base = draw(c21.wide_si(n))
    for i in range(cnt):
        t = base if (i and draw(st.integers(0, 3)) == 0) else draw(c21.wide_si(n))
        if i and draw(st.integers(0, 2)) == 0:
            # overlap with the first: shift its bounds a little
            s0, lb0, ub0 = sis[0]
            d = draw(st.integers(-3, 3)) * max(s0, 1)
            t = (s0, (lb0 + d) % (1 << n), (ub0 + d) % (1 << n)) if s0 else (0, (lb0 + d) % (1 << n), (lb0 + d) % (1 << n))
        sis.append(list(t))
        mem.append(c21._sample_members(draw, n, tuple(t)))
    return {"op": op, "bits": n, "sis": sis, "members": mem}


def run_shard(shard, ctx):
    mode = shard["mode"]
    if mode in ("pairs", "triples"):
        n = shard["bits"]
        forms = sg.canonical(n)
        objs = [sg.make(n, t) for t in forms]
        masks = [sg.gamma_mask(o) for o in objs]
        ntag = [c21._nontrivial_tag(n, t)[0] for t in forms]
        total = nt_total = 0
        if mode == "pairs":
            k = -1
            for op in shard["ops"]:
                for i in range(len(forms)):
                    if ctx.out_of_time():
                        break
                    for j in range(len(forms)):
                        k += 1
                        if k % shard["parts"] != shard["part"]:
                            continue
                        total += 1
                        overlap = masks[i] & masks[j]
                        nt = (ntag[i] or ntag[j]) and overlap != masks[i] and overlap != masks[j]
                        nt_total += nt
                        f = check_join(op, n, [objs[i], objs[j]], [masks[i], masks[j]])
                        if f is not None:
                            case = {"op": op, "bits": n, "sis": [list(forms[i]), list(forms[j])]}
                            c21._dump(f[0] + "\t" + finding_line(case, f[1]))
                            ctx.fail(f[0], case, f[1])
                            ctx.count("failing_cases:" + op)
                ctx.classes[f"op:{op}"] += total
            ctx.extra[f"enumerated_pairs_w{n}"] = total
        else:
            k = -1
            idx = range(len(forms))
            for i, j, l in itertools.product(idx, idx, idx):
                k += 1
                if k % shard["parts"] != shard["part"]:
                    continue
                if (k & 1023) == 0 and ctx.out_of_time():
                    break
                total += 1
                nt_total += ntag[i] or ntag[j] or ntag[l]
                f = check_join("lub3", n, [objs[i], objs[j], objs[l]], [masks[i], masks[j], masks[l]])
                if f is not None:
                    case = {"op": "lub3", "bits": n, "sis": [list(forms[i]), list(forms[j]), list(forms[l])]}
                    c21._dump(f[0] + "\t" + finding_line(case, f[1]))
                    ctx.fail(f[0], case, f[1])
                    ctx.count("failing_cases:lub3")
            ctx.classes["op:lub3"] += total
            ctx.extra[f"enumerated_triples_w{n}"] = total
        ctx.evaluations += total
        ctx.extra["enumerated_distinct_nontrivial"] = nt_total
        ctx.classes[f"width:{n}"] += total
        ctx.extra["exhaustive"] = True
        ctx.extra["exhaustive_subdomain"] = ("all pairs of canonical strided intervals of width 1-3 for union/lub/pseudo_join/intersection/widen, all triples at width 2 "
                                             "(thorough: width 3), every canonical interval of width 1-4 for the queries")
        if len(ctx.samples) < 2:
            ctx.samples.append({"op": (shard.get("ops") or ["lub3"])[0], "bits": n, "sis": [list(forms[len(forms) // 3]), list(forms[len(forms) // 2])]})
        return
    if mode == "queries":
        n = shard["bits"]
        total = nt_total = 0
        for t in sg.canonical(n):
            total += 1
            nt_total += c21._nontrivial_tag(n, t)[0]
            for f in check_queries(n, t):
                case = {"op": "queries", "bits": n, "sis": [list(t)]}
                c21._dump(f[0] + "\t" + finding_line(case, f[1]))
                ctx.fail(f[0], case, f[1])
        # the empty interval
        for f in check_queries(n, "empty"):
            ctx.fail(f[0], {"op": "queries", "bits": n, "sis": ["empty"]}, f[1])
        ctx.evaluations += total + 1
        ctx.extra["enumerated_distinct_nontrivial"] = nt_total
        ctx.extra[f"enumerated_query_intervals_w{n}"] = total
        ctx.classes["op:queries"] += total
        return

    def body(case):
        fails = check_queries_wide(case["bits"], tuple(case["sis"][0]), case["probes"]) if case["op"] == "queries-wide" else _wide_join(case)
        c = {k: v for k, v in case.items() if k != "members"}
        ctx.case(c, True, [f"op:{case['op']}", f"width:{case['bits']}", "wide"], sample=c)
        for f in fails[:1]:
            ctx.fail(f[0], case, f[1])

    hyp.run(wide_case(), shard["n"], shard["hseed"], body, ctx)


def shrink(case, obs, fp, matcher, deadline):
    return case, obs


KNOWN_PREDICATES = {}
