"""C23 -- discrete interval sets and region value sets are sound abstractions."""

from __future__ import annotations

import itertools

from hypothesis import strategies as st

from .. import hyp, ir, si_gamma as sg
from . import c21

ID = "C23"
LEVEL = "exploration"
RULE = (
    "DiscreteStridedIntervalSet: sets of 1-3 canonical strided intervals; ALL sets of <= 2 members at width 2 against ALL such sets / "
    "single intervals / integers (enumerated: thorough all, quick a seed-selected eighth), generated sets of <= 3 members at widths 3, 4, 6 and 8; built directly and through "
    "union under _allow_dsis(True); operations + - & | ^ unary- ~ << >> // % concat extract zero_extend sign_extend == != ULT ULE UGT "
    "UGE union intersection widen collapse normalize and the queries eval / cardinality; small max_cardinality values so that "
    "collapsing happens. ValueSet: 1-3 regions from {global, stack_1, heap_2} each mapped to a canonical interval (widths 3, 4, 6, 8 "
    "generated), built through the constructor and union; operations vs+x vs-x vs%x (x interval or integer), "
    "vs&x (zero, alignment mask < 0x100, identical value set, general), vs-vs (same regions), union/intersection/widen with a value "
    "set and with an interval, full-width extract, == / != , eval / min / max / cardinality. Oracle: member sets computed from (bits, "
    "stride, lb, ub): the result contains op(x,y) for every member x (of every member interval / of the region's interval, per region) "
    "and every member y of the operand; comparisons contain every truth value that occurs; intersection contains the common members, "
    "union / widen both operands; eval lists only members (count min(n,|members|) for DSIS), DSIS cardinality >= |members| (documented "
    "over-approximation), ValueSet cardinality = sum over regions, min/max = extremum of the single region. Non-trivial: >= 2 member "
    "intervals / regions and a non-singleton operand; enumerated cases distinct by construction, generated ones by SHA-1."
)
ASSUMPTIONS = [
    "methods documented as placeholders (ValueSet.concat 'obviously flawed', ValueSet.reverse, ValueSet.LShR, partial ValueSet.extract returning TOP) are only run for crash-freedom and reported under audit, not as violations",
    "a failure that already shows on a single member interval with the same operand is C21/C22's and is counted as attributed_elsewhere",
]
BUDGET_S = {"quick": 220, "thorough": 2400}
REGIONS = ("global", "stack_1", "heap_2")

M = lambda n: (1 << n) - 1  # noqa: E731


def _vsa():
    import claripy.backends.backend_vsa as vsa

    return vsa


def mk_dsis(n, members, max_card=None):
    vsa = _vsa()
    return vsa.DiscreteStridedIntervalSet(bits=n, si_set={sg.make(n, tuple(t)) for t in members}, max_cardinality=max_card)


def mk_operand(n, spec):
    """spec: ["dsis", [t...], max_card] | ["si", t] | ["int", v]"""
    if spec[0] == "dsis":
        return mk_dsis(n, spec[1], spec[2] if len(spec) > 2 else None)
    if spec[0] == "si":
        return sg.make(n, tuple(spec[1]))
    return spec[1]


def gamma_any(r):
    """-> ('bool', set) | ('bv', bits, mask) | None"""
    vsa = _vsa()
    if isinstance(r, vsa.BoolResult):
        return ("bool", {bool(v) for v in r.value})
    if isinstance(r, vsa.DiscreteStridedIntervalSet):
        m = 0
        for si in r._si_set:
            g = gamma_any(si)  # a member may itself be a set (intersection produces that)
            m |= g[2] if g else 0
        return ("bv", r.bits, m)
    if isinstance(r, vsa.StridedInterval):
        return ("bv", r.bits, sg.gamma_mask(r))
    return None


def spec_mask(n, spec):
    if spec[0] == "dsis":
        m = 0
        for t in spec[1]:
            m |= sg.mask_of(n, *t)
        return m
    if spec[0] == "si":
        return sg.mask_of(n, *spec[1])
    return 1 << (spec[1] & M(n))


DSIS_BIN = {
    "add": (lambda a, b: a + b, "bvadd"), "sub": (lambda a, b: a - b, "bvsub"), "and": (lambda a, b: a & b, "bvand"), "or": (lambda a, b: a | b, "bvor"),
    "xor": (lambda a, b: a ^ b, "bvxor"), "shl": (lambda a, b: a << b, "bvshl"), "ashr": (lambda a, b: a >> b, "bvashr"),
    "udiv": (lambda a, b: a // b, "bvudiv"), "urem": (lambda a, b: a % b, "bvurem"),
}
DSIS_CMP = {"eq": (lambda a, b: a == b, "eq"), "ne": (lambda a, b: a != b, "ne"), "ULT": (lambda a, b: a.ULT(b), "ult"), "ULE": (lambda a, b: a.ULE(b), "ule"),
            "UGT": (lambda a, b: a.UGT(b), "ugt"), "UGE": (lambda a, b: a.UGE(b), "uge")}
DSIS_SET = {"union": lambda a, b: a.union(b), "intersection": lambda a, b: a.intersection(b), "widen": lambda a, b: a.widen(b)}
DSIS_UN = {"neg": (lambda a: -a, lambda x, n: (-x) & M(n)), "not": (lambda a: ~a, lambda x, n: (~x) & M(n))}
DSIS_OPS = (*DSIS_BIN, *DSIS_CMP, *DSIS_SET, "concat", *DSIS_UN, "extract", "zero_extend", "sign_extend", "collapse", "normalize", "queries")


def check_dsis(case):
    """case: {kind:'dsis', bits, op, a: dsis-spec, b: operand-spec | None, param}  -> failures"""
    n, op = case["bits"], case["op"]
    vsa = _vsa()
    a_mask = spec_mask(n, case["a"])
    xs = sg.members(a_mask)
    fails = []

    def fail(clause, **obs):
        fails.append((f"dsis:{op}:{clause}", {"result": obs.pop("result", "?"), **{k: repr(v)[:100] for k, v in obs.items()}}))

    def attributed():
        """does the same failure show with a single member interval as the first operand? then it is C21/C22's"""
        if case["a"][0] != "dsis" or len(case["a"][1]) < 2:
            return False
        for t in case["a"][1]:
            sub = {**case, "a": ["si", t], "_noattr": True}
            try:
                if check_dsis(sub):
                    return True
            except Exception:  # noqa: BLE001
                pass
        return False

    try:
        a = mk_operand(n, case["a"])
        b = mk_operand(n, case["b"]) if case.get("b") is not None else None
        ys = sg.members(spec_mask(n, case["b"])) if case.get("b") is not None else [None]
        if op in DSIS_BIN or op in DSIS_CMP:
            fn, irop = DSIS_BIN.get(op) or DSIS_CMP[op]
            if op in ("udiv", "urem") and 0 in ys:
                ys = [y for y in ys if y != 0]
                zero_div = True
            else:
                zero_div = False
            swap = bool(case.get("swap"))
            if swap and op in ("udiv", "urem"):
                # the set is the divisor now
                zero_div = 0 in xs
                if zero_div:
                    xs = [x for x in xs if x != 0]
                ys = sg.members(spec_mask(n, case["b"]))
            try:
                r = fn(b, a) if swap else fn(a, b)
            except Exception as e:  # noqa: BLE001
                if zero_div:
                    return []
                raise e
            if r is NotImplemented:
                return [("declined", {})]
            g = gamma_any(r)
            if g is None:
                fail("unknown-result-type", result=type(r).__name__)
                return fails
            for x in xs:
                for y in ys:
                    p_, q_ = (y, x) if swap else (x, y)
                    v = ir.bv_cmp(irop, p_, q_, n) if op in DSIS_CMP else ir.bv_binop(irop, p_, q_, n)
                    if (g[0] == "bool" and bool(v) not in g[1]) or (g[0] == "bv" and not (g[2] >> int(v)) & 1):
                        if not case.get("_noattr") and attributed():
                            return [("attributed", {})]
                        fail("missing", result=_d(r), x=x, y=y, value=v)
                        return fails
            return fails
        if op in DSIS_SET:
            r = DSIS_SET[op](b, a) if case.get("swap") else DSIS_SET[op](a, b)
            if r is NotImplemented:
                return [("declined", {})]
            g = gamma_any(r)
            if g is None or g[0] != "bv":
                fail("unknown-result-type", result=type(r).__name__)
                return fails
            b_mask = spec_mask(n, case["b"])
            want = (a_mask & b_mask) if op == "intersection" else (a_mask | b_mask)
            if want & ~g[2]:
                if not case.get("_noattr") and attributed():
                    return [("attributed", {})]
                fail("missing", result=_d(r), value=sg.members(want & ~g[2])[0])
            return fails
        if op == "concat":
            swap = bool(case.get("swap"))
            r = b.concat(a) if swap else a.concat(b)
            if r is NotImplemented:
                return [("declined", {})]
            g = gamma_any(r)
            if g is None or g[0] != "bv" or g[1] != 2 * n:
                fail("wrong-result", result=_d(r))
                return fails
            for x in xs:
                for y in ys:
                    if not (g[2] >> (((y << n) | x) if swap else ((x << n) | y))) & 1:
                        if not case.get("_noattr") and attributed():
                            return [("attributed", {})]
                        fail("missing", result=_d(r), x=x, y=y)
                        return fails
            return fails
        if op in DSIS_UN:
            fn, conc = DSIS_UN[op]
            r = fn(a)
            g = gamma_any(r)
            for x in xs:
                if g is None or g[0] != "bv" or not (g[2] >> conc(x, n)) & 1:
                    if not case.get("_noattr") and attributed():
                        return [("attributed", {})]
                    fail("missing", result=_d(r), x=x)
                    return fails
            return fails
        if op in ("extract", "zero_extend", "sign_extend"):
            p = case["param"]
            if op == "extract":
                r = a.extract(p[0], p[1])
                conc = lambda x: (x >> p[1]) & M(p[0] - p[1] + 1)  # noqa: E731
            elif op == "zero_extend":
                r = a.zero_extend(n + p)
                conc = lambda x: x  # noqa: E731
            else:
                r = a.sign_extend(n + p)
                conc = lambda x: c21._sext(x, n, p)  # noqa: E731
            g = gamma_any(r)
            for x in xs:
                if g is None or g[0] != "bv" or not (g[2] >> conc(x)) & 1:
                    if not case.get("_noattr") and attributed():
                        return [("attributed", {})]
                    fail("missing", result=_d(r), x=x)
                    return fails
            return fails
        if op in ("collapse", "normalize"):
            r = getattr(a, op)()
            g = gamma_any(r)
            if g is None or g[0] != "bv" or a_mask & ~g[2]:
                fail("missing", result=_d(r))
            return fails
        if op == "queries":
            k = len(xs)
            card = a.cardinality
            if card < k:
                fail("cardinality-below-members", result=str(card), members=k)
            for cnt in sorted({0, 1, 2, k, k + 1}):
                r = a.eval(cnt)
                vals = [int(v) & M(n) for v in r]
                if any(not (a_mask >> v) & 1 for v in vals):
                    fail("eval-non-member", result=str(r)[:80], n=cnt)
                    break
                if len(set(vals)) < min(cnt, k) and len(vals) < cnt:
                    fail("eval-too-few", result=str(r)[:80], n=cnt, members=k)
                    break
            return fails
    except Exception as e:  # noqa: BLE001
        if isinstance(e, NotImplementedError) or type(e).__name__ == "ClaripyVSAOperationError":
            return [("declined", {})]  # "unsupported operand type": the operation says so itself
        if case.get("swap") and (isinstance(e, TypeError) and "unsupported operand" in str(e) or isinstance(e, AssertionError) and op in ("shl", "ashr")
                                 or isinstance(e, AttributeError) and ("stridedinterval" in str(e) or "'int' object" in str(e))):
            # the plain interval's method (or Python itself) refuses a set as its second operand: Python's "unsupported operand"
            # TypeError, the type assertion on shift amounts, the interval class' operand conversion, a method called on an int
            return [("declined", {})]
        fail("exception:" + type(e).__name__, result="exc", exc=repr(e)[:120])
    return fails


def _d(r):
    vsa = _vsa()
    if isinstance(r, vsa.DiscreteStridedIntervalSet):
        return "DSIS{" + ",".join(sorted(sg.describe(s) for s in r._si_set)) + "}"
    if isinstance(r, vsa.StridedInterval):
        return sg.describe(r)
    if isinstance(r, vsa.BoolResult):
        return "bool" + "".join("T" if v else "F" for v in sorted(set(r.value), reverse=True))
    if isinstance(r, vsa.ValueSet):
        return "VS{" + ",".join(f"{k}:{sg.describe(v)}" for k, v in sorted(r.regions.items())) + "}"
    return type(r).__name__


# ------------------------------------------------------------------ value sets


def mk_vs(n, regions):
    """regions: {name: (stride, lb, ub)} built through the public constructor and union."""
    vsa = _vsa()
    vs = None
    for name in sorted(regions):
        one = vsa.ValueSet(bits=n, region=name, region_base_addr=0, val=sg.make(n, tuple(regions[name])))
        vs = one if vs is None else vs.union(one)
    return vs if vs is not None else vsa.ValueSet(bits=n)


VS_OPS = ("add", "sub", "urem", "and", "sub_vs", "union_vs", "intersection_vs", "widen_vs", "union_si", "intersection_si", "widen_si", "extract_full", "eq_vs", "ne_vs", "queries")


def check_vs(case):
    n, op = case["bits"], case["op"]
    vsa = _vsa()
    regs = {k: tuple(v) for k, v in case["regions"].items()}
    fails = []

    def fail(clause, **obs):
        fails.append((f"vs:{op}:{clause}", {"result": obs.pop("result", "?"), **{k: repr(v)[:100] for k, v in obs.items()}}))

    try:
        vs = mk_vs(n, regs)
        rm = {k: sg.mask_of(n, *t) for k, t in regs.items()}
        if op in ("add", "sub", "urem", "and"):
            b = mk_operand(n, case["b"])
            bm = spec_mask(n, case["b"])
            ys = sg.members(bm)
            irop = {"add": "bvadd", "sub": "bvsub", "urem": "bvurem", "and": "bvand"}[op]
            if op == "urem":
                ys = [y for y in ys if y != 0]
                if not ys:
                    return []
            try:
                r = {"add": lambda: vs + b, "sub": lambda: vs - b, "urem": lambda: vs % b, "and": lambda: vs & b}[op]()
            except ZeroDivisionError:
                if op == "urem" and (bm & 1):
                    return []
                raise
            if isinstance(r, vsa.ValueSet):
                for k, m in rm.items():
                    if k not in r.regions:
                        if sg.members(m) and ys:
                            fail("region-dropped", result=_d(r), region=k)
                            return fails
                        continue
                    g = sg.gamma_mask(r.regions[k])
                    for x in sg.members(m):
                        for y in ys:
                            v = ir.bv_binop(irop, x, y, n)
                            if not (g >> v) & 1:
                                if _si_level_fails(n, irop, regs[k], case["b"]):
                                    return [("attributed", {})]
                                fail("missing-in-region", result=_d(r), region=k, x=x, y=y, value=v)
                                return fails
            else:
                g = gamma_any(r)
                if g is None or g[0] != "bv":
                    fail("unknown-result-type", result=type(r).__name__)
                    return fails
                for k, m in rm.items():
                    for x in sg.members(m):
                        for y in ys:
                            v = ir.bv_binop(irop, x, y, n)
                            if not (g[2] >> v) & 1:
                                if _si_level_fails(n, irop, regs[k], case["b"]):
                                    return [("attributed", {})]
                                fail("missing-in-offsets", result=_d(r), region=k, x=x, y=y, value=v)
                                return fails
            return fails
        if op.endswith("_vs"):
            regs2 = {k: tuple(v) for k, v in case["regions2"].items()}
            vs2 = mk_vs(n, regs2)
            rm2 = {k: sg.mask_of(n, *t) for k, t in regs2.items()}
            if op == "sub_vs":
                if set(regs) != set(regs2):
                    try:
                        vs - vs2
                    except NotImplementedError:
                        return []
                    return []
                r = vs - vs2
                g = gamma_any(r)
                for k in regs:
                    for x in sg.members(rm[k]):
                        for y in sg.members(rm2[k]):
                            v = (x - y) & M(n)
                            if g is None or g[0] != "bv" or not (g[2] >> v) & 1:
                                fail("missing-difference", result=_d(r), region=k, x=x, y=y)
                                return fails
                return fails
            if op in ("eq_vs", "ne_vs"):
                r = (vs == vs2) if op == "eq_vs" else (vs != vs2)
                g = gamma_any(r)
                # a pointer into region k with offset x equals one into region k' with offset y iff k == k' and x == y
                truths = set()
                for k, m in rm.items():
                    for k2, m2 in rm2.items():
                        if k == k2:
                            if m & m2:
                                truths.add(True)
                            if len(sg.members(m | m2)) > 1:
                                truths.add(False)
                        else:
                            truths.add(False)
                if op == "ne_vs":
                    truths = {not t for t in truths}
                if g is None or g[0] != "bool" or not truths <= g[1]:
                    fail("truth-value-missing", result=_d(r), expected=sorted(truths))
                return fails
            r = {"union_vs": vs.union, "intersection_vs": vs.intersection, "widen_vs": vs.widen}[op](vs2)
            if not isinstance(r, vsa.ValueSet):
                fail("unknown-result-type", result=type(r).__name__)
                return fails
            for k in set(rm) | set(rm2):
                a_m, b_m = rm.get(k, 0), rm2.get(k, 0)
                want = (a_m & b_m) if op == "intersection_vs" else (a_m | b_m)
                got = sg.gamma_mask(r.regions[k]) if k in r.regions else 0
                if want & ~got:
                    fail("missing-in-region", result=_d(r), region=k, value=sg.members(want & ~got)[0])
                    return fails
            return fails
        if op in ("union_si", "intersection_si", "widen_si"):
            b = mk_operand(n, case["b"])
            bm = spec_mask(n, case["b"])
            r = {"union_si": vs.union, "intersection_si": vs.intersection, "widen_si": vs.widen}[op](b)
            for k, m in rm.items():
                want = (m & bm) if op == "intersection_si" else (m | bm)
                got = sg.gamma_mask(r.regions[k]) if k in r.regions else 0
                if want & ~got:
                    fail("missing-in-region", result=_d(r), region=k, value=sg.members(want & ~got)[0])
                    return fails
            return fails
        if op == "extract_full":
            r = vs.extract(n - 1, 0)
            for k, m in rm.items():
                got = sg.gamma_mask(r.regions[k]) if isinstance(r, vsa.ValueSet) and k in r.regions else 0
                if m & ~got:
                    fail("missing-in-region", result=_d(r), region=k)
                    return fails
            return fails
        if op == "queries":
            total = sum(len(sg.members(m)) for m in rm.values())
            if vs.cardinality != total:
                fail("cardinality", result=str(vs.cardinality), want=total)
            allm = 0
            for m in rm.values():
                allm |= m
            for cnt in (0, 1, 2, total, total + 1):
                r = vs.eval(cnt)
                if len(r) > cnt or any(not (allm >> (int(v) & M(n))) & 1 for v in r):
                    fail("eval-non-member-or-too-many", result=str(r)[:80], n=cnt)
                    break
            if len(rm) == 1:
                m = next(iter(rm.values()))
                mem = sg.members(m)
                if vs.min() != min(mem) or vs.max() != max(mem):
                    fail("min-max", result=f"{vs.min()},{vs.max()}", want=f"{min(mem)},{max(mem)}")
            return fails
    except NotImplementedError:
        return []
    except Exception as e:  # noqa: BLE001
        fail("exception:" + type(e).__name__, result="exc", exc=repr(e)[:120])
    return fails


def _si_level_fails(n, irop, t, bspec):
    """The same operands at the StridedInterval level (C21's business if that fails too)."""
    if bspec[0] == "dsis":
        return False
    op = {"bvadd": "add", "bvsub": "sub", "bvurem": "urem", "bvand": "and"}[irop]
    b = list(bspec[1]) if bspec[0] == "si" else [0, bspec[1] & M(n), bspec[1] & M(n)]
    f, _ = c21.run_one({"op": op, "bits": n, "a": list(t), "b": b, "param": None})
    return f is not None


def run_case(case):
    fails = check_dsis(case) if case["kind"] == "dsis" else check_vs(case)
    return fails


def replay(case):
    out = {}
    for fp, obs in run_case(case):
        if fp not in ("attributed", "declined"):
            out.setdefault(fp, obs)
    return list(out.items())


def finding_line(case, obs):
    return "|".join(str(case.get(k)) for k in ("kind", "op", "bits", "a", "b", "param", "regions", "regions2")) + "|" + str(obs.get("result"))


# ------------------------------------------------------------------ generators / enumerators


def _sets_w(n, max_members):
    forms = sg.canonical(n)
    out = [[list(f)] for f in forms]
    if max_members >= 2:
        out += [[list(a), list(b)] for a, b in itertools.combinations(forms, 2)]
    return out


def enum_dsis(n):
    sets = _sets_w(n, 2)
    singles = [["si", list(f)] for f in sg.canonical(n)] + [["int", v] for v in range(1 << n)]
    for a in sets:
        aspec = ["dsis", a, None]
        for op in ("neg", "not", "collapse", "normalize", "queries"):
            yield {"kind": "dsis", "bits": n, "op": op, "a": aspec, "b": None, "param": None}
        for hi in range(n):
            for lo in range(hi + 1):
                yield {"kind": "dsis", "bits": n, "op": "extract", "a": aspec, "b": None, "param": [hi, lo]}
        for k in (1, n):
            yield {"kind": "dsis", "bits": n, "op": "zero_extend", "a": aspec, "b": None, "param": k}
            yield {"kind": "dsis", "bits": n, "op": "sign_extend", "a": aspec, "b": None, "param": k}
        for b in singles:
            for op in (*DSIS_BIN, *DSIS_CMP, *DSIS_SET, "concat"):
                yield {"kind": "dsis", "bits": n, "op": op, "a": aspec, "b": b, "param": None}
                if b[0] == "si" and len(a) > 1:
                    # the plain interval first, the set second (reflected operators, named operations of the interval class)
                    yield {"kind": "dsis", "bits": n, "op": op, "a": aspec, "b": b, "param": None, "swap": True}
        for b in sets:
            if len(b) == 1 and len(a) == 1:
                continue
            for op in (*DSIS_BIN, *DSIS_CMP, *DSIS_SET):
                yield {"kind": "dsis", "bits": n, "op": op, "a": aspec, "b": ["dsis", b, None], "param": None}


@st.composite
def gen_dsis(draw):
    n = draw(st.sampled_from((3, 3, 4, 6, 8, 8)))
    if n <= 4:
        forms = sg.canonical(n)
        pick = lambda: list(draw(st.sampled_from(forms)))  # noqa: E731
    else:
        def pick():
            t = draw(c21.wide_si(n))
            s, lb, ub = t
            # keep member sets enumerable
            if s and ((ub - lb) % (1 << n)) // s > 40:
                ub = (lb + s * draw(st.integers(1, 12))) % (1 << n)
            return [s, lb, ub]
    a = ["dsis", [pick() for _ in range(draw(st.integers(1, 3)))], draw(st.sampled_from((None, None, 2, 4, 9)))]
    op = draw(st.sampled_from(DSIS_OPS))
    b = None
    param = None
    if op in DSIS_BIN or op in DSIS_CMP or op in DSIS_SET or op == "concat":
        k = draw(st.integers(0, 2))
        if k == 0:
            b = ["dsis", [pick() for _ in range(draw(st.integers(1, 3)))], draw(st.sampled_from((None, 2, 4)))]
        elif k == 1:
            b = ["si", pick()]
        else:
            b = ["int", draw(st.sampled_from((0, 1, 2, 3, M(n), 1 << (n - 1), n, n - 1)))]
        if op in ("shl", "ashr") and n > 4:
            b = ["int", draw(st.integers(0, n + 1))]
        if op == "concat" and n > 16:
            op = "add"
    elif op == "extract":
        hi = draw(st.integers(0, n - 1))
        param = [hi, draw(st.integers(0, hi))]
    elif op in ("zero_extend", "sign_extend"):
        param = draw(st.sampled_from((1, 2, n)))
    case = {"kind": "dsis", "bits": n, "op": op, "a": a, "b": b, "param": param}
    if b is not None and b[0] in ("si", "int") and draw(st.integers(0, 2)) == 0 and not (b[0] == "int" and op in DSIS_SET or op == "concat" and b[0] == "int"):
        case["swap"] = True  # the plain operand first, the set second
    return case


@st.composite
def gen_vs(draw):
    n = draw(st.sampled_from((3, 4, 4, 6, 8)))
    if n <= 4:
        forms = sg.canonical(n)
        pick = lambda: list(draw(st.sampled_from(forms)))  # noqa: E731
    else:
        def pick():
            s, lb, ub = draw(c21.wide_si(n))
            if s and ((ub - lb) % (1 << n)) // s > 40:
                ub = (lb + s * draw(st.integers(1, 12))) % (1 << n)
            return [s, lb, ub]
    names = draw(st.lists(st.sampled_from(REGIONS), min_size=1, max_size=3, unique=True))
    regs = {k: pick() for k in names}
    op = draw(st.sampled_from(VS_OPS))
    case = {"kind": "vs", "bits": n, "op": op, "regions": regs}
    if op.endswith("_vs"):
        same = draw(st.booleans())
        names2 = names if same else draw(st.lists(st.sampled_from(REGIONS), min_size=1, max_size=3, unique=True))
        case["regions2"] = {k: (regs[k] if (k in regs and draw(st.integers(0, 3)) == 0) else pick()) for k in names2}
    elif op in ("add", "sub", "urem", "and", "union_si", "intersection_si", "widen_si"):
        k = draw(st.integers(0, 2))
        if k == 0 or op.endswith("_si"):
            case["b"] = ["si", pick()]
        else:
            case["b"] = ["int", draw(st.sampled_from((0, 1, 2, 3, 7, 0xF & M(n), 0xF0 & M(n), M(n), 1 << (n - 1), 0xFF & M(n), 0x100 & M(n))))]
    return case


N = {"quick": {"dsis": 1500, "vs": 1500}, "thorough": {"dsis": 40000, "vs": 40000}}


def shards(tier, seed):
    out = []
    for i in range(6):
        out.append({"mode": "gen-dsis", "i": i, "n": N[tier]["dsis"], "hseed": seed * 1000 + 2300 + i})
    for i in range(4):
        out.append({"mode": "gen-vs", "i": i, "n": N[tier]["vs"], "hseed": seed * 1000 + 2310 + i})
    if tier == "quick":
        for p in range(6):
            out.append({"mode": "enum-dsis", "bits": 2, "part": (seed * 6 + p) % 48, "parts": 48})
    else:
        for p in range(16):
            out.append({"mode": "enum-dsis", "bits": 2, "part": p, "parts": 16})
    return out


def run_shard(shard, ctx):
    def record(case, fails, enumerated=False):
        nt = False
        if case["kind"] == "dsis":
            nt = len(case["a"][1]) >= 2 and (case.get("b") is None or case["b"][0] != "int")
        else:
            nt = len(case["regions"]) >= 2
        if not enumerated:
            ctx.case(case, nt, [f"{case['kind']}:{case['op']}", f"width:{case['bits']}"], sample=case)
        seen = set()
        for fp, obs in fails:
            if fp == "attributed":
                ctx.count("attributed_elsewhere(C21/C22)")
                continue
            if fp == "declined":
                ctx.count("declined(unsupported operand)")
                continue
            if fp not in seen:
                seen.add(fp)
                c21._dump(fp + "\t" + finding_line(case, obs))
                ctx.fail(fp, case, obs)
        return nt

    mode = shard["mode"]
    vsa = _vsa()
    if mode == "enum-dsis":
        total = nt_total = 0
        for k, case in enumerate(enum_dsis(shard["bits"])):
            if k % shard["parts"] != shard["part"]:
                continue
            if (k & 255) == 0 and ctx.out_of_time():
                break
            total += 1
            nt_total += record(case, run_case(case), enumerated=True)
            ctx.classes[f"dsis:{case['op']}"] += 1
        ctx.evaluations += total
        ctx.extra["enumerated_distinct_nontrivial"] = nt_total
        ctx.extra["enumerated_dsis_cases_w2"] = total
        if ctx.tier == "thorough":
            ctx.extra["exhaustive"] = True
            ctx.extra["exhaustive_subdomain"] = "every DSIS of <= 2 canonical width-2 intervals x every operation x every DSIS / interval / integer operand of that width"
        if len(ctx.samples) < 1:
            ctx.samples.append(case)
        return
    strat = gen_dsis() if mode == "gen-dsis" else gen_vs()

    def body(case):
        with vsa.strided_interval._allow_dsis(True) if (case["kind"] == "dsis" and case["op"] in ("union",)) else _null():
            record(case, run_case(case))

    hyp.run(strat, shard["n"], shard["hseed"], body, ctx)


class _null:
    def __enter__(self):
        return self

    def __exit__(self, *a):
        return False


def shrink(case, obs, fp, matcher, deadline):
    return case, obs


KNOWN_PREDICATES = {}
