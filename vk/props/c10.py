"""C10 -- cheap truth checks never claim a truth value that does not hold."""

from __future__ import annotations

import math

import claripy
import z3
from hypothesis import strategies as st

from .. import build_claripy, exprcheck, fpcheck, gen, hyp, ir, sem_z3, solver_machine as sm
from . import c11

ID = "C10"
LEVEL = "exploration"
RULE = (
    "(a) Boolean expressions from the C01 grammar and templates (concrete, symbolic, and valid/unsatisfiable-but-not-literal ones "
    "such as x<=u max, x&0==0, x==x+0, And(x<3,x>5), self-comparisons incl. floating point), each queried through claripy.is_true / "
    "is_false / Bool.is_true / Bool.is_false, twice, again after a structurally equal rebuild and after backend downsize (truth caches "
    "are keyed by AST hash). (b) solver histories restricted to add / is_true / is_false (with and without extras) interleaved with other "
    "queries on every exact frontend class. Oracle (one-sided): whenever an answer is True the expression must be valid / unsatisfiable "
    "- on all assignments of the as-written tree (<=10 bits) or by Z3 - respectively hold / fail on every assignment of the brute-force "
    "model set. Non-trivial: a True answer on a non-literal expression or relative to a non-empty constraint set; distinct by SHA-1 of the case."
)
ASSUMPTIONS = ["a False answer carries no information and is never checked", "FP validity is decided by Z3's FPA solver with a timeout (unknown = inconclusive)"]
BUDGET_S = {"quick": 240, "thorough": 3000}
N = {"quick": 1500, "thorough": 40000}
NH = {"quick": 150, "thorough": 2500}
SOLVER_FRONTENDS = ("Solver", "SolverCacheless", "SolverComposite", "SolverReplacement", "SolverHybrid")


def shards(tier, seed):
    out = []
    for k in ("bool-random", "bool-template", "bool-obvious", "bool-fp"):
        for i in range(2 if tier == "quick" else 4):
            out.append({"kind": k, "i": i, "n": N[tier] if k != "bool-fp" else N[tier] // 10, "hseed": seed * 1000 + 700 + len(out)})
    for fe in SOLVER_FRONTENDS:
        for i in range(2 if tier == "quick" else 3):
            out.append({"kind": "solver", "frontend": fe, "i": i, "n": NH[tier], "hseed": seed * 1000 + 750 + len(out)})
    return out


def _valid(t, spell, negate):
    """Is Bool tree t valid (negate=False) / unsatisfiable (negate=True)?  -> True / False / None (inconclusive)"""
    envs, exhaustive = exprcheck.envs_for(t, spell)
    want = not negate
    for e in envs:
        if ir.ev(t, e) != want:
            return False
    if exhaustive:
        return True
    r = sem_z3.check_sat(sem_z3.build(t) if negate else z3.Not(sem_z3.build(t)))
    return True if r == "unsat" else False if r == "sat" else None


def check_bool_case(case):
    t = ir.T(case["tree"])
    spell = case.get("spell", 0)
    fails = []
    info = {"classes": [], "nontrivial": False}
    try:
        e = build_claripy.build(t, build_claripy.Chooser(spell))
    except Exception:  # noqa: BLE001
        info["classes"].append("build-exception(C04)")
        return [], info
    answers = []
    for rnd in range(3):
        if rnd == 1:
            e2 = build_claripy.build(t, build_claripy.Chooser(spell + 7))  # structurally equal rebuild, other spelling
        elif rnd == 2:
            for b in (claripy.backends.concrete, claripy.backends.z3):
                b.downsize()
            e2 = e
        else:
            e2 = e
        for name, fn, neg in (("claripy.is_true", claripy.is_true, False), ("claripy.is_false", claripy.is_false, True),
                              ("Bool.is_true", lambda x: x.is_true(), False), ("Bool.is_false", lambda x: x.is_false(), True)):
            try:
                a = fn(e2)
            except claripy.errors.ClaripyError:
                continue
            answers.append(a)
            if a is True or (a is not False and bool(a)):
                info["classes"].append("answered-True")
                if e2.op != "BoolV":
                    info["nontrivial"] = True
                v = _valid(t, spell, neg)
                if v is None:
                    info["classes"].append("oracle-inconclusive")
                elif v is False:
                    fails.append((f"{name}:claims-{'unsat' if neg else 'valid'}:{exprcheck.skeleton(t)}", {"tree": ir.pretty(t), "built": repr(e2)[:200], "round": rnd}))
    uniq = {}
    for fp, obs in fails:
        uniq.setdefault(fp, obs)
    return list(uniq.items()), info


def check_fp_case(case):
    t = fpcheck.T(case["tree"])
    fails = []
    info = {"classes": ["fp"], "nontrivial": False}
    try:
        e = fpcheck.build(t, build_claripy.Chooser(case.get("spell", 0)))
    except Exception:  # noqa: BLE001
        return [], info
    ref = fpcheck.z3term(t)
    for name, fn, neg in (("claripy.is_true", claripy.is_true, False), ("claripy.is_false", claripy.is_false, True)):
        try:
            a = fn(e)
        except claripy.errors.ClaripyError:
            continue
        if a is True:
            info["classes"].append("answered-True")
            if e.op != "BoolV":
                info["nontrivial"] = True
            s = z3.Solver()
            s.set("timeout", 3000)
            s.add(ref if neg else z3.Not(ref))
            r = s.check()
            if r == z3.sat:
                fails.append((f"{name}:claims-{'unsat' if neg else 'valid'}:fp:{t[0]}", {"tree": fpcheck.pretty(t), "counter_model": str(s.model())[:200]}))
            elif r != z3.unsat:
                info["classes"].append("oracle-inconclusive")
    return fails, info


def replay(case):
    if "history" in case:
        return c11.replay(case)
    if case.get("sort") == "fp":
        return check_fp_case(case)[0]
    return check_bool_case(case)[0]


@st.composite
def obvious(draw, cfg):
    """Valid / unsatisfiable (or nearly so) but not syntactically literal."""
    n = draw(st.sampled_from(cfg["widths"]))
    m = (1 << n) - 1
    x = draw(st.one_of(gen.bv_vars(n), gen.bv_tree(n, 1, cfg)))
    y = draw(gen.bv_vars(n))
    c = lambda v: ("const", v & m, n)  # noqa: E731
    k = draw(st.integers(0, 13))
    shapes = [
        ("ule", x, c(m)), ("uge", x, c(0)), ("eq", ("bvand", x, c(0)), c(0)), ("eq", x, ("bvadd", x, c(0))),
        ("and", ("ult", x, c(3)), ("ugt", x, c(5))), ("or", ("ule", x, c(5)), ("ugt", x, c(5))), ("eq", x, x), ("ne", x, x),
        ("ult", x, c(0)), ("sle", x, c(m >> 1)), ("eq", ("bvxor", x, x), c(0)), ("ule", ("bvand", x, c(3)), c(3)),
        ("and", ("eq", x, c(1)), ("eq", x, c(2))), ("or", ("ne", x, y), ("eq", x, y)),
    ]
    t = shapes[k]
    j = draw(st.integers(0, 3))
    if j == 0:
        t = ("not", t)
    elif j == 1:
        t = ("and", t, draw(gen.bool_tree(1, cfg)))
    elif j == 2:
        t = ("or", t, draw(gen.bool_tree(1, cfg)))
    return t


@st.composite
def fp_bools(draw):
    srt = draw(st.sampled_from(fpcheck.SORTS))
    x = draw(st.one_of(st.just(("fvar", "f0_" + srt[0], srt)), fpcheck.fp_tree(srt, 1, True)))
    k = draw(st.integers(0, 5))
    if k <= 1:
        return (draw(st.sampled_from(fpcheck.FP_CMP)), x, x)  # self comparison: wrong for NaN
    if k == 2:
        # a concrete special value on one side (NaN, infinities, signed zeros): folded while the expression is built
        sp = ("fconst", draw(st.sampled_from(fpcheck.special_bits(srt))), srt)
        other = draw(st.one_of(st.just(x), st.sampled_from(fpcheck.pool(srt)).map(lambda b: ("fconst", b, srt))))
        a, b = (sp, other) if draw(st.booleans()) else (other, sp)
        t = (draw(st.sampled_from(fpcheck.FP_CMP)), a, b)
        return ("not", t) if draw(st.integers(0, 3)) == 0 else t
    if k == 3:
        return (draw(st.sampled_from(fpcheck.FP_CMP)), x, draw(fpcheck.fp_tree(srt, 1, True)))
    if k == 4:
        return ("isnan", ("fdiv", "RNE", x, x))
    return draw(fpcheck.bool_tree(2, True))


@st.composite
def truth_scenarios(draw):
    """Constraints that feed truth shortcuts and replacements (x == c, b, Not(b), bounds), then a derived solver
    (branch / blank_copy / split / combine / merge), then is_true / is_false about those same constraints on it."""
    W = sm.W
    x, y = ("var", draw(st.sampled_from(("a", "b"))), W), ("var", draw(st.sampled_from(("c", "d"))), W)
    k1, k2 = draw(st.sampled_from(sm.CONSTS)), draw(st.sampled_from(sm.CONSTS))
    pool = [("eq", x, ("const", k1, W)), ("eq", y, ("const", k2, W)), ("bvar", "p"), ("not", ("bvar", "p")), ("ult", x, ("const", k2, W)),
            ("ne", x, ("const", k1, W)), ("eq", ("bvadd", x, y), ("const", k1, W)), ("uge", y, x)]
    hist = []
    for _ in range(draw(st.integers(1, 3))):
        hist.append({"op": "add", "s": 0, "cs": [draw(st.sampled_from(pool))], "as_list": draw(st.booleans())})
    op = draw(st.sampled_from(("blank_copy", "split", "merge", "combine", "branch", "blank_copy")))
    if op in ("merge", "combine"):
        hist.append({"op": "branch", "s": 0})
        hist.append({"op": "add", "s": 1, "cs": [draw(st.sampled_from(pool))], "as_list": False})
        if op == "merge":
            hist.append({"op": "merge", "s": 0, "others": [1], "conds": [draw(st.sampled_from(pool)) for _ in range(3)], "ancestor": None})
        else:
            hist.append({"op": "combine", "s": 0, "others": [1]})
    else:
        hist.append({"op": op, "s": 0})
    if draw(st.booleans()):
        # every variable enumerated to exhaustion on its own (the model cache then holds all values of each, not all combinations),
        # then truth questions about relations BETWEEN the variables
        for v in draw(st.permutations((x, y))):
            hist.append(draw(st.sampled_from(({"op": "eval", "s": draw(st.sampled_from((1, 2, 3, 7))), "e": v, "n": 300, "extra": []},
                                              {"op": "batch", "s": draw(st.sampled_from((1, 2, 3, 7))), "es": [v], "n": 300, "extra": []}))))
        pool = pool + [("ne", ("bvadd", x, y), ("const", k1, W)), ("not", ("and", ("eq", x, ("const", k1, W)), ("eq", y, ("const", k2, W)))), ("ne", x, y), ("ult", x, y),
                       ("eq", ("bvand", x, y), ("const", 0, W)), ("or", ("ne", x, ("const", k1, W)), ("ne", y, ("const", k2, W)))]
    for _ in range(draw(st.integers(2, 6))):
        e = draw(st.sampled_from(pool))
        if draw(st.integers(0, 3)) == 0:
            e = ("not", e)
        hist.append({"op": draw(st.sampled_from(("is_true", "is_false"))), "s": draw(st.sampled_from((1, 2, 3, 7))), "e": e,
                     "extra": [draw(st.sampled_from(pool))] if draw(st.integers(0, 4)) == 0 else []})
    return hist


def run_shard(shard, ctx):
    kind = shard["kind"]
    tier = ctx.tier
    sem_z3.set_timeout(2000)
    if kind == "solver":
        fe = shard["frontend"]

        def body(hist):
            exprcheck.reset_caches()
            res = sm.Machine(fe).run(hist)
            case = {"frontend": fe, "reuse": False, "history": hist}
            nontriv = res.stats["true_answers"] > 0
            ctx.case(case, nontriv, [f"frontend:{fe}", "has:true-answer" if nontriv else "no-true-answer"], sample={"frontend": fe, "history": hist[:8], "n_steps": len(hist)})
            ctx.count("true_answers", res.stats["true_answers"])
            seen = set()
            for fp, obs in res.fails:
                # only the truth clause is C10's; everything else is reported by C11/C12/C13
                if ":claims-truth" in fp and fp not in seen:
                    seen.add(fp)
                    ctx.fail(fp, case, obs)
                elif fp not in seen:
                    ctx.count("attributed_elsewhere:" + fp.split(":")[-1])

        groups = ("truth", "maint", "branch", "algebra") if shard["i"] % 2 else ("truth", "maint", "branch")
        hyp.run(sm.histories(groups), shard["n"] // 2, shard["hseed"], body, ctx)
        hyp.run(truth_scenarios(), shard["n"] // 2, shard["hseed"] + 1, body, ctx)
        return

    spell = st.integers(0, 2**16)
    if kind == "bool-fp":
        strat = st.tuples(fp_bools(), spell).map(lambda v: {"sort": "fp", "tree": v[0], "spell": v[1]})

        def body(case):
            fails, info = check_fp_case(case)
            ctx.case(case, info["nontrivial"], sorted(set(info["classes"])), sample={"tree": fpcheck.pretty(fpcheck.T(case["tree"]))})
            for fp, obs in fails:
                ctx.fail(fp, case, obs)

        hyp.run(strat, shard["n"], shard["hseed"], body, ctx)
        return
    cfg = gen.cfg_for(tier)
    small = gen.cfg_for(tier, small=True)
    if kind == "bool-random":
        base = st.one_of(gen.bool_tree(3, cfg), gen.bool_tree(3, small), gen.bool_tree(2, gen.cfg_for(tier, concrete=True)))
    elif kind == "bool-template":
        base = st.one_of(gen.template(cfg), gen.template(small)).map(lambda t: t if ir.is_bool(t) else ("eq", t, ("const", 0, ir.width(t))))
    else:
        base = st.one_of(obvious(cfg), obvious(small))

    def body2(v):
        exprcheck.reset_caches()
        case = {"tree": v[0], "spell": v[1]}
        fails, info = check_bool_case(case)
        ctx.case(case, info["nontrivial"], [f"kind:{kind}", *sorted(set(info["classes"]))], sample={"tree": ir.pretty(ir.T(v[0])), "spell": v[1]})
        for fp, obs in fails:
            ctx.fail(fp, case, obs)

    hyp.run(st.tuples(base, spell), shard["n"], shard["hseed"], body2, ctx)


def shrink(case, obs, fp, matcher, deadline):
    if "history" in case:
        return c11.shrink(case, obs, fp, matcher, deadline)
    return case, obs


# ------------------------------------------------------------------------------------------------
# open finding C10-concrete-fp-rounding: the concrete backend folds floating point in Python doubles -- the rounding mode
# argument is ignored and FLOAT results are never rounded to single precision.  A failure belongs to that finding iff the
# tree contains a ground arithmetic / conversion node at which exactly that happens: the IEEE result of the node (its
# sort, its rounding mode, operands evaluated exactly by Z3's rewriter) differs from what the same operation gives in
# Python double arithmetic on those operands.  A wrong truth claim on a tree without such a node is not this finding.

_ROUNDING_OPS = (*fpcheck.FP_ARITH, "fsqrt", "to_fp_fp", "to_fp_sbv", "to_fp_ubv")


def _ground_float(t):
    v = fpcheck.z3_ground_value(fpcheck.z3term(t))
    if v[0] == "nan":
        return math.nan
    return fpcheck.bits_to_float(v[1], fpcheck.fsort(t))


def _double_arith(node):
    """The value Python double arithmetic gives for this node on exact operands (what the concrete backend computes)."""
    op = node[0]
    if op in fpcheck.FP_ARITH:
        a, b = _ground_float(node[2]), _ground_float(node[3])
        if op == "fadd":
            return a + b
        if op == "fsub":
            return a - b
        if op == "fmul":
            return a * b
        try:
            return a / b
        except ZeroDivisionError:
            if a == 0 or math.isnan(a):
                return math.nan
            return -math.inf if (math.copysign(1.0, a) * math.copysign(1.0, b)) < 0 else math.inf
    if op == "fsqrt":
        a = _ground_float(node[2])
        return math.nan if a < 0 else math.sqrt(a)
    if op == "to_fp_fp":
        return _ground_float(node[2])
    z = fpcheck.z3term(node[2])
    v = fpcheck.z3_ground_value(z)[1]
    n = z.size()
    if op == "to_fp_sbv" and v >= 1 << (n - 1):
        v -= 1 << n
    return float(v)


def _same_float(a, b):
    if math.isnan(a) or math.isnan(b):
        return math.isnan(a) and math.isnan(b)
    return a == b and math.copysign(1.0, a) == math.copysign(1.0, b)


def rounding_material_nodes(t):
    out = []
    for s in fpcheck.subtrees(t):
        if s[0] not in _ROUNDING_OPS:
            continue
        try:
            exact = _ground_float(s)
            legacy = _double_arith(s)
        except (ValueError, OverflowError, z3.Z3Exception):
            continue  # not ground (depends on a variable): nothing the concrete backend could have folded here
        if not _same_float(exact, legacy):
            out.append(fpcheck.pretty(s)[:120])
    return out


def _pred_fp_rounding(case, obs):
    if case.get("sort") != "fp":
        return False
    return bool(rounding_material_nodes(fpcheck.T(case["tree"])))


KNOWN_PREDICATES = {"fp_rounding_material": _pred_fp_rounding}
