"""C19 -- garbage collection stays disabled exactly while Z3 calls are in progress."""

from __future__ import annotations

import itertools

from hypothesis import strategies as st

from .. import hyp, sched

ID = "C19"
LEVEL = "exploration"
RULE = (
    "The harness owns the schedule: 1-3 logical threads each run a program of nested condom-wrapped calls (nesting words such as "
    "(), (()), ()(), (()()), bodies that raise z3.Z3Exception or an exception that is not a Z3Exception, and nested errors that "
    "leave the outer wrapped call too, each followed by a further call); a trace function hands control to a controller before EVERY line "
    "of _enter_z3, _exit_z3, z3_condom and the call bodies, and backend_z3's `gc` / `_gc_lock` globals are rebound to a model flag and "
    "a scheduler-aware lock. Schedules: for every 1- and 2-thread configuration (programs, GC initially on/off) the COMPLETE state space "
    "(every scheduling choice in every reachable state, visited-state pruning); for 3-thread configurations every schedule with at most "
    "B preemptions (iterative context bounding; B=1 quick, B=2 thorough, one configuration unbounded in thorough), plus Hypothesis-generated "
    "schedules beyond the bound. Oracle after every step: model GC flag disabled while any thread is inside a "
    "wrapped body, in-progress count >= 0, no deadlock, no stray exception; at the end flag == initial flag, count == 0, no underflow "
    "logged. Non-trivial: >= 2 threads and >= 1 preemption that lands while some thread is inside _enter_z3/_exit_z3; distinct by "
    "SHA-1 of (configuration, schedule). Entry points (real collector, single thread): generated solver histories on seven frontend "
    "configurations with Z3_solver_check / Z3_solver_check_assumptions wrapped from outside claripy - whenever one of them is entered "
    "during an operation that started with the collector enabled, the collector must be disabled; after every operation the collector "
    "state equals the state before it and the in-progress count is 0 (non-trivial: the history made at least one solver check)."
)
ASSUMPTIONS = [
    "line-granularity interleavings (sys.settrace line events) of the Python code of _enter_z3/_exit_z3/z3_condom; sub-line (bytecode) interleavings are not explored",
    "the scheduler-aware lock models threading.Lock faithfully (mutual exclusion, blocking acquire); the model GC flag models gc.isenabled/enable/disable",
]
BUDGET_S = {"quick": 200, "thorough": 2400}
GRACE_S = 60

L = {"kids": [], "raise": False}
PROGRAMS = {
    "()": [dict(L)],
    "(!)": [{"kids": [], "raise": True}],
    "(())": [{"kids": [dict(L)], "raise": False}],
    "()()": [dict(L), dict(L)],
    "((!))": [{"kids": [{"kids": [], "raise": True}], "raise": False}],
    "(()())": [{"kids": [dict(L), dict(L)], "raise": False}],
    "(())()": [{"kids": [dict(L)], "raise": False}, dict(L)],
    "(()!)": [{"kids": [dict(L)], "raise": True}],
    # an exception that is not a Z3Exception leaves a wrapped call, and another call follows on the same thread
    "(#)()": [{"kids": [], "raise": "other"}, dict(L)],
    # the error of a nested call (already converted to ClaripyZ3Error) leaves the outer wrapped call too, then another call
    "((!)^)()": [{"kids": [{"kids": [], "raise": True}], "raise": False, "propagate": True}, dict(L)],
    "((#)^)": [{"kids": [{"kids": [], "raise": "other"}], "raise": False, "propagate": True}],
}
SMALL = ("()", "(!)", "(())", "()()")


def configs(tier):
    """bound None = complete exploration of the configuration's state space (every choice in every reachable state)."""
    out = []
    for p in PROGRAMS:
        for g in (True, False):
            out.append({"kind": "dfs", "programs": [p], "gc": g, "bound": None})
    two = list(itertools.combinations_with_replacement(SMALL if tier == "quick" else tuple(PROGRAMS), 2))
    for a, b in two:
        for g in (True, False):
            out.append({"kind": "dfs", "programs": [a, b], "gc": g, "bound": None})
    if tier == "quick":
        three = [(("()", "()", "()"), 1)]
    else:
        three = [(t, 2) for t in itertools.combinations_with_replacement(SMALL, 3)] + [(("()", "()", "()"), None)]
    for tpl, b in three:
        for g in (True, False):
            out.append({"kind": "dfs", "programs": list(tpl), "gc": g, "bound": b})
    return out


ENTRY_FRONTENDS = ("Solver", "SolverCacheless", "SolverComposite", "SolverHybrid", "SolverReplacement", "Solver-track", "SolverComposite-track")


def shards(tier, seed):
    out = configs(tier)
    for i, fe in enumerate(ENTRY_FRONTENDS):
        out.append({"kind": "entry", "frontend": fe, "i": i, "n": 60 if tier == "quick" else 1500, "hseed": seed * 1000 + 1950 + i})
    for i in range(8 if tier == "quick" else 16):
        out.append({"kind": "random", "i": i, "n": 150 if tier == "quick" else 6000, "hseed": seed * 1000 + 1900 + i})
    return out


def _in_guard(key):
    for stack, *_ in key[0]:
        if stack and stack[0][0] in ("_enter_z3", "_exit_z3"):
            return True
    return False


def _record(ctx, cfg, run, prefix):
    sched_list = [c for c, *_ in run.trace]
    npre = sched.preemptions(run.trace)
    nthreads = len(cfg["programs"])
    pre_in_guard = any(
        last is not None and last in runnable and chosen != last and _in_guard(key) for chosen, runnable, key, last in run.trace
    )
    case = {"programs": cfg["programs"], "gc": cfg["gc"], "schedule": sched_list}
    ctx.case(case, nthreads >= 2 and pre_in_guard,
             [f"threads:{nthreads}", f"preemptions:{min(npre, 4)}", "preempt-in-guard" if pre_in_guard else "no-preempt-in-guard", f"gc0:{cfg['gc']}"],
             sample={"programs": cfg["programs"], "gc_initially_enabled": cfg["gc"], "preemptions": npre, "schedule": "".join(map(str, sched_list))})
    ctx.count("steps", len(run.trace))
    for kind, step, detail in run.violations[:1]:
        ctx.fail(f"{kind}:threads={nthreads}", case, {"step": step, **detail, "schedule_len": len(sched_list)})


def run_case(case):
    progs = [PROGRAMS[p] if isinstance(p, str) else p for p in case["programs"]]
    return sched.Run(progs, bool(case["gc"])).execute(list(case["schedule"]))


def replay(case):
    if case.get("entry"):
        return run_entry_case(case)[0][:1]
    try:
        r = run_case(case)
    except sched.HarnessGone:
        raise
    return [(f"{kind}:threads={len(case['programs'])}", {"step": step, **detail}) for kind, step, detail in r.violations[:1]]


class _CheckProbe:
    """Wraps the two Z3 API functions that run a solver (from outside claripy) and records the real collector's state at the
    moment they are entered."""

    NAMES = ("Z3_solver_check", "Z3_solver_check_assumptions")

    def __init__(self):
        self.enabled_calls = 0
        self.calls = 0
        self.saved = []

    def __enter__(self):
        import gc

        import z3
        import z3.z3 as zz

        for n in self.NAMES:
            f = getattr(zz, n)

            def w(*a, _f=f, **k):
                self.calls += 1
                if gc.isenabled():
                    self.enabled_calls += 1
                return _f(*a, **k)

            self.saved.append((zz, n, f))
            setattr(zz, n, w)
            if getattr(z3, n, None) is f:
                self.saved.append((z3, n, f))
                setattr(z3, n, w)
        return self

    def __exit__(self, *a):
        for mod, n, f in self.saved:
            setattr(mod, n, f)
        self.saved.clear()
        return False


def run_entry_case(case):
    """-> (fails, info): the history is run on a real solver with the real collector enabled (or disabled) beforehand."""
    import gc

    from .. import solver_machine as sm

    bz = sched.target()
    fails = []
    info = {"checks": 0, "ops_with_checks": 0}
    was = gc.isenabled()
    probe = _CheckProbe()

    class M(sm.Machine):
        def step(self_, i, step):  # noqa: N805
            before_enabled, before_calls = probe.enabled_calls, probe.calls
            sm.Machine.step(self_, i, step)
            if probe.calls > before_calls:
                info["ops_with_checks"] += 1
            if probe.enabled_calls > before_enabled and case["gc"] and not fails:
                fails.append((f"solver-check-with-gc-enabled:{step['op']}", {"frontend": case["frontend"], "step": i, "op": step["op"], "checks_with_gc_enabled": probe.enabled_calls - before_enabled}))
            if gc.isenabled() != bool(case["gc"]) and not fails:
                fails.append((f"gc-state-not-restored:{step['op']}", {"frontend": case["frontend"], "step": i, "op": step["op"], "enabled_after": gc.isenabled(), "enabled_before": bool(case["gc"])}))
            if bz._active_z3_calls != 0 and not fails:
                fails.append((f"in-progress-count-nonzero-at-rest:{step['op']}", {"frontend": case["frontend"], "step": i, "count": bz._active_z3_calls}))

    try:
        (gc.enable if case["gc"] else gc.disable)()
        with probe:
            M(case["frontend"]).run(case["history"], stop_on_fail=False)
    finally:
        (gc.enable if was else gc.disable)()
    info["checks"] = probe.calls
    return fails, info


def run_shard(shard, ctx):
    sched.target()
    if shard["kind"] == "entry":
        from .. import exprcheck, solver_machine as sm

        groups = ("core", "maint", "branch", "core-track") if shard["frontend"].endswith("-track") else ("core", "maint", "branch")

        def ebody(v):
            hist, g = v
            exprcheck.reset_caches()
            case = {"entry": True, "frontend": shard["frontend"], "gc": g, "history": hist}
            fails, info = run_entry_case(case)
            ctx.count("real_solver_checks_observed", info["checks"])
            ctx.case(case, info["ops_with_checks"] >= 1, [f"entry:{shard['frontend']}", f"gc0:{g}"],
                     sample={"frontend": shard["frontend"], "gc_initially_enabled": g, "history": hist[:6], "solver_checks": info["checks"]})
            for fp, obs in fails[:1]:
                ctx.fail(fp, case, obs)

        hyp.run(st.tuples(sm.histories(groups, max_steps=20), st.sampled_from((True, True, True, False))), shard["n"], shard["hseed"], ebody, ctx)
        return
    if shard["kind"] == "dfs":
        progs = [PROGRAMS[p] for p in shard["programs"]]
        st_ = sched.explore(progs, shard["gc"], shard["bound"], lambda r, prefix: _record(ctx, shard, r, prefix), ctx.out_of_time)
        ctx.extra["states"] = st_["states"]
        ctx.extra["transitions"] = st_["transitions"]
        ctx.extra["dfs_configurations"] = 1
        ctx.extra["dfs_configurations_complete"] = int(st_["complete"])
        ctx.extra["dfs_configurations_complete_unbounded"] = int(st_["complete"] and shard["bound"] is None)
        ctx.extra["exhaustive"] = True
        ctx.extra["exhaustive_subdomain"] = ("all line-level interleavings (every scheduling choice in every reachable state) of every 1- and 2-thread "
                                             "configuration listed in 'rule'; 3-thread configurations only up to the stated preemption bound")
        return

    names = list(PROGRAMS)

    def body(v):
        progs, g, schedule = v
        cfg = {"programs": progs, "gc": g}
        r = sched.Run([PROGRAMS[p] for p in progs], g).execute(schedule)
        _record(ctx, cfg, r, schedule)

    strat = st.tuples(st.lists(st.sampled_from(names), min_size=2, max_size=3), st.booleans(), st.lists(st.integers(0, 2), min_size=0, max_size=400))
    hyp.run(strat, shard["n"], shard["hseed"], body, ctx)


def shrink(case, obs, fp, matcher, deadline):
    from .. import shrink as shrinker

    if case.get("entry"):
        def still_h(h):
            for f, o in replay({**case, "history": h}):
                if f == fp:
                    return o
            return None

        h, o = shrinker.ddmin_list(list(case["history"]), still_h, deadline)
        return {**case, "history": h}, (o if o is not None else obs)

    def still(schedule):
        c = {**case, "schedule": schedule}
        for f, o in replay(c):
            if f == fp:
                return o
        return None

    s, o = shrinker.ddmin_list(list(case["schedule"]), still, deadline)
    return {**case, "schedule": s}, (o if o is not None else obs)


KNOWN_PREDICATES = {}
