"""C05 -- expression width, variables, concreteness and depth are reported accurately."""

from __future__ import annotations

import claripy
import z3
from hypothesis import strategies as st

from .. import ast_interp, build_claripy, exprcheck, fpcheck, gen, hyp, ir, sem_z3, strcheck

ID = "C05"
LEVEL = "exploration"
RULE = (
    "Every AST node reachable from expressions produced by: public-API construction of generated BV/Bool/FP/string trees "
    "(random + rewrite templates), claripy.simplify (Z3 abstraction), replace/replace_dict, annotation edits, canonicalize, "
    "excavate_ite/burrow_ite. For each node, recomputed from its args by an independent walk: width (also vs the Z3 sort), "
    "variable-set superset of leaf symbols (also vs Z3 free constants), symbolic flag, depth = 1+max(child depth), and "
    "concrete_value vs an independent interpreter. A case (one root expression) is non-trivial when it was produced by a "
    "rewrite/fold, Z3 abstraction, substitution, an annotation edit or an ITE utility; distinct by SHA-1 of (tree, spelling, origin)."
)
ASSUMPTIONS = ["Z3 sort widths and free-constant sets of BackendZ3.convert(e) are taken as ground truth for translatable roots"]
BUDGET_S = {"quick": 200, "thorough": 2400}
N = {"quick": 1000, "thorough": 20000}


def shards(tier, seed):
    out = []
    for k in ("random", "template", "template", "small", "fp", "str", "annotated", "annotated-concrete"):
        for i in range(3 if tier == "quick" else 6):
            out.append({"kind": k, "i": i, "n": N[tier], "hseed": seed * 1000 + 200 + len(out)})
    return out


_SAME = {"__add__", "__sub__", "__mul__", "__floordiv__", "__mod__", "SDiv", "SMod", "__and__", "__or__", "__xor__", "__lshift__",
         "__rshift__", "LShR", "RotateLeft", "RotateRight", "__neg__", "__invert__", "Reverse", "union", "intersection", "widen",
         "fpAbs", "fpNeg"}
_BOOLOPS = {"BoolV", "BoolS", "And", "Or", "Not", "__eq__", "__ne__", "ULT", "ULE", "UGT", "UGE", "SLT", "SLE", "SGT", "SGE",
            "fpEQ", "fpNEQ", "fpLT", "fpLEQ", "fpGT", "fpGEQ", "fpIsNaN", "fpIsInf", "StrContains", "StrPrefixOf", "StrSuffixOf", "StrIsDigit"}


def expected_length(e):
    """Width recomputed from the arguments (None = no width: Bool / String)."""
    op, a = e.op, e.args
    if op in ("BVV", "BVS"):
        return a[1]
    if op in ("FPV", "FPS"):
        return a[1].length
    if op in _BOOLOPS and isinstance(e, claripy.ast.Bool):
        return None
    if isinstance(e, claripy.ast.String):
        return None
    if op in _SAME:
        return a[0].length
    if op == "Concat":
        return sum(x.length for x in a)
    if op == "Extract":
        return a[0] - a[1] + 1
    if op in ("ZeroExt", "SignExt"):
        return a[0] + a[1].length
    if op == "If":
        return a[1].length
    if op in ("fpAdd", "fpSub", "fpMul", "fpDiv"):
        return a[1].length
    if op == "fpSqrt":
        return a[1].length
    if op in ("fpToFP", "fpToFPUnsigned"):
        return a[-1].length
    if op == "fpFP":
        return sum(x.length for x in a)
    if op == "fpToIEEEBV":
        return a[0].length
    if op in ("fpToSBV", "fpToUBV"):
        return a[2]
    if op in ("StrLen", "StrIndexOf", "StrToInt"):
        return 64
    return "unknown"


def check_ast(root, origin):
    """-> list of (fp, obs)."""
    fails = []
    seen = {}
    order = []
    stack = [root]
    while stack:
        x = stack.pop()
        if id(x) in seen:
            continue
        seen[id(x)] = x
        order.append(x)
        stack.extend(y for y in x.args if isinstance(y, claripy.ast.Base))
    my_depth = {}
    my_syms = {}
    for x in reversed(order):  # children were pushed after parents; reversed preorder is not postorder in DAGs, so iterate to fixpoint
        pass
    # postorder via explicit recursion-free pass
    done = set()
    st_ = [(root, False)]
    while st_:
        x, expanded = st_.pop()
        if id(x) in done:
            continue
        kids = [y for y in x.args if isinstance(y, claripy.ast.Base)]
        if not expanded:
            st_.append((x, True))
            st_.extend((k, False) for k in kids if id(k) not in done)
            continue
        done.add(id(x))
        my_depth[id(x)] = 1 + max((my_depth[id(k)] for k in kids), default=0)
        syms = set()
        if x.op in ("BVS", "BoolS", "FPS", "StringS"):
            syms.add(x.args[0])
        for k in kids:
            syms |= my_syms[id(k)]
        my_syms[id(x)] = syms
        # --- the checks, per node
        want_len = expected_length(x)
        if want_len != "unknown":
            if x.length != want_len:
                fails.append((f"length:{x.op}:{origin}", {"node": repr(x)[:200], "reported": x.length, "recomputed": want_len}))
        if not (x.variables >= syms):
            fails.append((f"variables:{x.op}:{origin}", {"node": repr(x)[:200], "reported": sorted(x.variables), "leaf_symbols": sorted(syms)}))
        if syms and not x.symbolic:
            fails.append((f"symbolic:{x.op}:{origin}", {"node": repr(x)[:200], "leaf_symbols": sorted(syms)}))
        if x.depth != my_depth[id(x)]:
            fails.append((f"depth:{x.op}:{origin}", {"node": repr(x)[:200], "reported": x.depth, "recomputed": my_depth[id(x)]}))
        if x.is_leaf() != (my_depth[id(x)] == 1):
            fails.append((f"is_leaf:{x.op}:{origin}", {"node": repr(x)[:200]}))
        if not x.symbolic and not syms and isinstance(x, (claripy.ast.BV, claripy.ast.Bool)) and not (x.op == "BVV" and x.args[0] is None):
            try:
                want = ast_interp.ev(x, {})
            except ast_interp.Uninterpretable:
                want = None
            if want is not None:
                try:
                    got = x.concrete_value
                except claripy.errors.ClaripyZeroDivisionError:
                    got = x
                except Exception as e:  # noqa: BLE001
                    got = x
                    fails.append((f"concrete_value-raises:{x.op}:{origin}", {"node": repr(x)[:200], "exc": exprcheck.exc_fingerprint(e)}))
                if got is not x and (got != want or isinstance(got, bool) != isinstance(want, bool)):
                    fails.append((f"concrete_value:{x.op}:{origin}", {"node": repr(x)[:200], "reported": got, "recomputed": want}))
    # leaf_asts() must list exactly the leaves
    try:
        listed = {id(l) for l in root.leaf_asts()}
        mine = {id(x) for x in order if my_depth[id(x)] == 1}
        if listed != mine:
            fails.append((f"leaf_asts:{root.op}:{origin}", {"node": repr(root)[:200], "listed": len(listed), "recomputed": len(mine)}))
    except Exception as e:  # noqa: BLE001
        fails.append((f"leaf_asts-raises:{root.op}:{origin}", {"exc": exprcheck.exc_fingerprint(e)}))
    return fails


def check_root_vs_z3(root, origin):
    fails = []
    try:
        conv = claripy.backends.z3.convert(root)
    except Exception:  # noqa: BLE001 - not translatable: nothing to compare
        return fails
    if isinstance(root, claripy.ast.BV) and z3.is_bv(conv) and conv.size() != root.length:
        fails.append((f"length-vs-z3:{root.op}:{origin}", {"node": repr(root)[:200], "reported": root.length, "z3": conv.size()}))
    if isinstance(root, claripy.ast.FP) and z3.is_fp(conv) and conv.ebits() + conv.sbits() != root.length:
        fails.append((f"length-vs-z3:{root.op}:{origin}", {"node": repr(root)[:200], "reported": root.length, "z3": conv.ebits() + conv.sbits()}))
    names = set(sem_z3.free_const_names(conv))
    if not (set(root.variables) >= names):
        fails.append((f"variables-vs-z3:{root.op}:{origin}", {"node": repr(root)[:200], "reported": sorted(root.variables), "z3": sorted(names)}))
    if names and not root.symbolic:
        fails.append((f"symbolic-vs-z3:{root.op}:{origin}", {"node": repr(root)[:200], "z3": sorted(names)}))
    return fails


_FRESH = [0]


class _Anno(claripy.Annotation):
    def __init__(self, k, elim, reloc):
        self.k, self._e, self._r = k, elim, reloc

    @property
    def eliminatable(self):
        return self._e

    @property
    def relocatable(self):
        return self._r

    def __hash__(self):
        return hash(("vk-anno", self.k, self._e, self._r))

    def __eq__(self, o):
        return isinstance(o, _Anno) and (o.k, o._e, o._r) == (self.k, self._e, self._r)

    def __repr__(self):
        return f"<A{self.k}{'e' if self._e else ''}{'r' if self._r else ''}>"


def derived(r, ch):
    """(origin, ast) pairs derived from result r by the operations the property names."""
    out = []

    def add(origin, f):
        try:
            x = f()
        except claripy.errors.ClaripyError:
            return
        if isinstance(x, claripy.ast.Base):
            out.append((origin, x))

    add("simplify", lambda: claripy.simplify(r))
    leaves = sorted((l for l in r.leaf_asts() if l.op in ("BVS", "BoolS")), key=lambda l: l.args[0])
    if leaves:
        v = leaves[ch.pick(len(leaves))]
        if v.op == "BVS":
            n = v.length
            news = [claripy.BVV(ch.next() & ((1 << n) - 1), n), claripy.BVS("w_%d" % n, n, explicit_name=True) + 1, claripy.BVS("w_%d" % n, n, explicit_name=True)]
        else:
            news = [claripy.BoolV(bool(ch.pick(2))), claripy.BoolS("q0", explicit_name=True), claripy.Not(claripy.BoolS("q0", explicit_name=True))]
        new = news[ch.pick(len(news))]
        add("replace", lambda: r.replace(v, new) if hasattr(r, "replace") else claripy.replace(r, v, new))
        add("replace_dict", lambda: claripy.replace_dict(r, {v.hash(): new}))
    inner = [x for x in r.args if isinstance(x, claripy.ast.Base) and not x.is_leaf()]
    if inner:
        old = inner[ch.pick(len(inner))]
        if isinstance(old, claripy.ast.BV):
            add("replace-subtree", lambda: claripy.replace(r, old, claripy.BVS("t_%d" % old.length, old.length, explicit_name=True)))
        elif isinstance(old, claripy.ast.Bool):
            add("replace-subtree", lambda: claripy.replace(r, old, claripy.BoolS("tb", explicit_name=True)))
    a1 = _Anno(ch.pick(3), True, False)
    a2 = _Anno(ch.pick(3), False, True)
    a3 = _Anno(ch.pick(3), False, False)
    add("annotate", lambda: r.annotate(a1, a2))
    add("annotate", lambda: r.annotate(a3).remove_annotation(a3))
    add("annotate", lambda: r.annotate(a1, a3).clear_annotations())
    add("annotate", lambda: r.annotate(a2).insert_annotation(a1).replace_annotations((a3,)))
    add("annotate", lambda: r.annotate(a2).clear_annotation_type(_Anno))
    if isinstance(r, claripy.ast.BV):
        add("op-on-annotated", lambda: r.annotate(a2) + 0)
        add("op-on-annotated", lambda: (r.annotate(a3) + 1)[r.length - 1 : 0])
        add("op-on-annotated", lambda: claripy.Concat(r.annotate(a1), claripy.BVV(0, 8))[7:0])
    if isinstance(r, claripy.ast.BV) and r.length <= 64:
        n = r.length
        # set operations (their variable sets are not recomputed by every path) followed by a substitution
        u = claripy.BVS("u_%d" % n, n, explicit_name=True)
        setop = ("union", "intersection", "widen")[ch.pick(3)]
        add("setop-replace", lambda: claripy.replace(getattr(r, setop)(u), u, claripy.BVS("w_%d" % n, n, explicit_name=True) + 1))
        add("setop-replace", lambda: claripy.replace(getattr(u, setop)(r), u, claripy.BVV(ch.next() & ((1 << n) - 1), n)))
        # a rewrite that collapses to an annotated leaf whose plain form is not alive any more (nothing to find in the hash-cons
        # cache): (z .. ones) & (x .. leaf) sliced to the low part is the leaf itself
        _FRESH[0] += 1
        ones = claripy.BVV((1 << n) - 1, n)
        zero = claripy.BVV(0, n)
        add("collapse-to-annotated-leaf", lambda: (claripy.Concat(claripy.BVS("cz_%d" % n, n, explicit_name=True), ones)
                                                   & claripy.Concat(r, claripy.BVS("fresh%d_%d" % (_FRESH[0], n), n, explicit_name=True).annotate(_Anno(ch.pick(3), True, False))))[n - 1 : 0])
        add("collapse-to-annotated-leaf", lambda: (claripy.Concat(claripy.BVS("cz_%d" % n, n, explicit_name=True), zero)
                                                   | claripy.Concat(r, claripy.BVS("fresh%d_%d" % (_FRESH[0], n), n, explicit_name=True).annotate(_Anno(ch.pick(3), False, True))))[n - 1 : 0])
    add("canonicalize", lambda: r.canonicalize()[2])
    add("excavate_ite", lambda: claripy.excavate_ite(r))
    add("burrow_ite", lambda: claripy.burrow_ite(r))
    return out


def check_case(case):
    sort = case.get("sort", "bv")
    spell = case.get("spell", 0)
    ch = build_claripy.Chooser(spell)
    fails = []
    info = {"classes": [], "nontrivial": False, "origins": []}
    try:
        if sort == "bv":
            from .. import annos

            build_claripy.ANNO_FACTORY = annos.factory
            tree = ir.T(case["tree"])
            r = build_claripy.build(tree, ch)
            rc = exprcheck.rewrite_class(tree, r)
            want = None if ir.is_bool(tree) else ir.width(tree)
            if not ir.is_bool(tree) and r.length != want:
                fails.append((f"length-vs-written:{r.op}:build", {"tree": ir.pretty(tree), "reported": r.length, "written": want}))
            written_vars = set(ir.variables(tree))
            if not set(r.variables) <= written_vars:
                pass  # extra variables are allowed by the property (superset); only missing ones matter
        elif sort == "fp":
            tree = fpcheck.T(case["tree"])
            r = fpcheck.build(tree, ch)
            rc = "fp"
        else:
            tree = strcheck.T(case["tree"])
            r = strcheck.build(tree, ch)
            rc = "str"
    except Exception:  # noqa: BLE001 - construction failures are C04's business
        info["classes"].append("build-exception(C04)")
        return [], info
    roots = [("build:" + rc, r)]
    if sort == "bv":
        roots += derived(r, build_claripy.Chooser(spell + 1))
    elif sort == "fp":
        # (string trees are not sent through Z3's simplifier here: its sequence rewriter can take minutes on
        # symbolic strings with 2^31-sized indices, which is a time sink, not a metadata question; C09 owns simplify)
        try:
            roots.append(("simplify", claripy.simplify(r)))
        except claripy.errors.ClaripyError:
            pass
    for origin, x in roots:
        o = origin.split(":")[0]
        fails += check_ast(x, o)
        fails += check_root_vs_z3(x, o)
        info["origins"].append(origin)
    info["classes"] = [f"sort:{sort}", *sorted({f"origin:{o}" for o in info["origins"]})]
    info["nontrivial"] = len(roots) > 1 or rc not in ("untouched", "leaf")
    return fails, info


def replay(case):
    fails, _ = check_case(case)
    return fails


def run_shard(shard, ctx):
    kind = shard["kind"]
    tier = ctx.tier
    spell = st.integers(0, 2**32 - 1)
    if kind == "random":
        strat = st.tuples(gen.any_tree(gen.cfg_for(tier), 4), spell).map(lambda v: {"sort": "bv", "tree": v[0], "spell": v[1]})
    elif kind == "template":
        strat = st.tuples(gen.template(gen.cfg_for(tier)), spell).map(lambda v: {"sort": "bv", "tree": v[0], "spell": v[1]})
    elif kind == "small":
        cfg = gen.cfg_for(tier, small=True)
        strat = st.tuples(st.one_of(gen.any_tree(cfg, 4), gen.template(cfg)), spell).map(lambda v: {"sort": "bv", "tree": v[0], "spell": v[1]})
    elif kind == "fp":
        strat = st.tuples(fpcheck.any_tree(3, symbolic=True), spell).map(lambda v: {"sort": "fp", "tree": v[0], "spell": v[1]})
    elif kind in ("annotated", "annotated-concrete"):
        from .. import annos

        cfg = gen.cfg_for(tier, concrete=(kind == "annotated-concrete"), nvars=1)
        base = st.one_of(gen.any_tree(cfg, 4), gen.template(cfg), gen.bv_tree(8, 4, {**cfg, "widths": (8,)}))
        strat = st.tuples(base.flatmap(lambda t: annos.sprinkle(t, 3, 10)), spell).map(lambda v: {"sort": "bv", "tree": v[0], "spell": v[1]})
    else:
        strat = st.tuples(strcheck.any_tree(3, symbolic=True), spell).map(lambda v: {"sort": "str", "tree": v[0], "spell": v[1]})

    def body(case):
        if isinstance(case, tuple):  # (template name, tree), spell
            case = {"sort": "bv", "tree": case[0][1], "spell": case[1]}
        exprcheck.reset_caches()
        fails, info = check_case(case)
        sample = dict(case)
        if case["sort"] == "bv":
            sample = {"tree": ir.pretty(ir.T(case["tree"])), "spell": case["spell"], "origins": info.get("origins")}
        ctx.case(case, info["nontrivial"], info["classes"], sample=sample)
        ctx.count("roots_checked", len(info.get("origins", [])))
        for fp, obs in fails:
            ctx.fail(fp, case, obs)

    if kind == "template":
        each = gen.templates_each(gen.cfg_for(tier))
        per = max(1, shard["n"] // len(each))
        for k, (_nm, strat1) in enumerate(each):
            hyp.run(st.tuples(strat1, spell), per, shard["hseed"] * 100 + k, body, ctx)
        return
    hyp.run(strat, shard["n"], shard["hseed"], body, ctx)


KNOWN_PREDICATES = {}
