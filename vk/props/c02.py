"""C02 -- floating-point expressions follow IEEE-754 / SMT-LIB FPA in every rounding mode, folded or not."""

from __future__ import annotations

import itertools

import claripy
import z3
from hypothesis import strategies as st

from .. import build_claripy, exprcheck, fpcheck as fc, hyp, shrink as shrinker

ID = "C02"
LEVEL = "exploration"
RULE = (
    "Cases are FP operation trees (fp.add/sub/mul/div/sqrt/abs/neg, comparisons, isNaN/isInf, to_fp from FP / signed BV / unsigned BV / "
    "raw bits, fp.to_sbv/to_ubv, fpToIEEEBV, fpFP, ite) over FLOAT and DOUBLE with a rounding mode drawn per node and operands from "
    "boundary pools (signed zeros, smallest/largest subnormal, smallest normal, 1+-ulp, ties, largest finite, infinities, NaN, integers "
    "at the precision edge 2^24+-1 / 2^53+-1 / 2^63 / 2^64, 0.1, 1/3) plus uniform bit patterns; built through claripy's public API in a "
    "generated spelling. Modes: concrete trees (eager folding through the concrete backend), the complete cross product pool x pool x "
    "binary operation x 5 rounding modes per sort (enumerated), unary/conversion operations over the pool x 5 modes (enumerated), "
    "claripy.FPV(double, FLOAT) construction, and symbolic trees whose BackendZ3 translation is compared under sampled boundary "
    "assignments. Oracle: Z3's FPA rewriter on an independently built term (exact ground evaluation), NaN equal to any NaN, otherwise "
    "bit-for-bit; results SMT-LIB leaves unspecified (to_sbv/to_ubv of NaN, infinity or out-of-range, bits of a NaN) are skipped, "
    "decided from the exact rational operand value. Non-trivial: some operand is not a normal number or a rounding mode is not RNE "
    "or the result is inexact-sensitive (differs between rounding modes); distinct by SHA-1 of (tree, spelling / assignment)."
)
ASSUMPTIONS = [
    "Z3 4.13's rewriter evaluates ground FPA terms per IEEE-754/SMT-LIB (cross-checked against host doubles for RNE on every run)",
    "symbolic trees are compared on sampled boundary assignments only (no FP solving)",
]
BUDGET_S = {"quick": 220, "thorough": 2400}

BIN = fc.FP_ARITH


def values_equal(a, b):
    if a is None or b is None:
        return False
    if a[0] == "nan" or b[0] == "nan":
        return a[0] == b[0]
    return a == b


def _desc(v):
    if v is None:
        return None
    if v[0] == "fp":
        return f"fp:{v[1]:#x}"
    return f"{v[0]}:{v[1] if len(v) > 1 else ''}"


def eval_sut_ground(r):
    """Ground value of a claripy result: literal, else through BackendZ3 + rewriter.  -> (value, path)"""
    v = fc.claripy_ground_value(r)
    if v is not None:
        return v, "folded"
    term = claripy.backends.z3.convert(r)
    return fc.z3_ground_value(term), "translated"


def check_concrete(t, spell):
    """-> (failure or None, info)"""
    t = fc.T(t)
    info = {"classes": [], "nontrivial": fc.is_nontrivial(t)}
    if fc.unspecified_under(t, {}, {}):
        info["classes"].append("exempt-unspecified")
        info["nontrivial"] = False
        return None, info
    try:
        r = fc.build(t, build_claripy.Chooser(spell))
    except Exception as e:  # noqa: BLE001 - crashes are C04's; counted here
        info["classes"].append("build-exception(C04):" + type(e).__name__)
        return None, info
    try:
        got, path = eval_sut_ground(r)
    except (ValueError, claripy.errors.ClaripyError, z3.Z3Exception) as e:
        info["classes"].append("not-ground:" + type(e).__name__)
        return None, info
    want = fc.z3_ground_value(fc.z3term(t))
    info["classes"] += [path, f"top:{t[0]}", f"kind:{fc.kind(t)}"]
    if values_equal(got, want):
        return None, info
    return {"got": _desc(got), "want": _desc(want), "path": path, "tree": fc.pretty(t)}, info


def fingerprint(t, path):
    """Root-cause key from the smallest failing subtree."""
    op = t[0]
    rm = next((x for x in t[1:] if isinstance(x, str) and x in fc.RMS), None)
    ops = []
    for c in fc.children(t):
        if c[0] == "fconst":
            ops.append(fc.special_class(c[1], c[2]))
        elif c[0] == "const":
            ops.append("int")
        else:
            ops.append(c[0])
    srt = fc.fsort(t) if fc.kind(t) == "fp" else (fc.fsort(fc.children(t)[0]) if fc.children(t) and fc.kind(fc.children(t)[0]) == "fp" else "-")
    return f"{op}:{'RNE' if rm in (None, 'RNE') else 'nonRNE'}:{'/'.join(ops)}:{srt}:{path}"


def minimal_failing(t, spell):
    best = None
    for s in sorted(fc.subtrees(t), key=lambda x: len(repr(x))):
        if not fc.children(s):
            continue
        f, _ = check_concrete(s, spell)
        if f is not None:
            best = (s, f)
            break
    return best


def check_symbolic(t, spell, envs):
    t = fc.T(t)
    vars_ = fc.variables(t)
    info = {"classes": ["symbolic", f"top:{t[0]}"], "nontrivial": fc.is_nontrivial(t) and bool(vars_)}
    try:
        r = fc.build(t, build_claripy.Chooser(spell))
        term = claripy.backends.z3.convert(r)
    except Exception as e:  # noqa: BLE001
        info["classes"].append("build-exception(C04):" + type(e).__name__)
        return None, info
    ref = fc.z3term(t)
    for env in envs:
        if fc.unspecified_under(t, env, vars_):
            info["classes"].append("exempt-unspecified")
            continue
        try:
            got = fc.z3_ground_value(fc.z3_subst(term, env, vars_))
            want = fc.z3_ground_value(fc.z3_subst(ref, env, vars_))
        except ValueError:
            info["classes"].append("not-ground")
            continue
        if not values_equal(got, want):
            return {"got": _desc(got), "want": _desc(want), "env": env, "tree": fc.pretty(t), "claripy": repr(r)[:200]}, info
    return None, info


def check_ctor(bits64):
    """claripy.FPV(python double, FLOAT) rounds the double to single precision (RNE)."""
    v = fc.bits_to_float(bits64, "DOUBLE")
    info = {"classes": ["ctor"], "nontrivial": True}
    try:
        r = claripy.FPV(v, claripy.FSORT_FLOAT)
    except Exception as e:  # noqa: BLE001
        return {"exc": f"{type(e).__name__}: {e}"[:200], "value": repr(v)}, info
    got = fc.claripy_ground_value(r)
    want = fc.z3_ground_value(z3.fpFPToFP(z3.RNE(), fc.z3term(("fconst", bits64, "DOUBLE")), z3.Float32()))
    if values_equal(got, want):
        return None, info
    return {"got": _desc(got), "want": _desc(want), "value": repr(v)}, info


def run_case(case):
    """-> list of (fp, obs)"""
    mode = case["mode"]
    if mode == "ctor":
        f, _ = check_ctor(case["bits"])
        return [("FPV-ctor:FLOAT:" + ("raises" if f and "exc" in f else "wrong-rounding"), f)] if f else []
    if mode == "symbolic":
        f, _ = check_symbolic(case["tree"], case.get("spell", 0), case["envs"])
        if f is None:
            return []
        t = fc.T(case["tree"])
        return [(f"translated-symbolic:{t[0]}", f)]
    f, _ = check_concrete(case["tree"], case.get("spell", 0))
    if f is None:
        return []
    m = minimal_failing(fc.T(case["tree"]), case.get("spell", 0))
    if m is None:
        return [(fingerprint(fc.T(case["tree"]), f["path"]) + ":composite", f)]
    s, f2 = m
    return [(fingerprint(s, f2["path"]), {**f, "minimal_subtree": fc.pretty(s), "minimal_got": f2["got"], "minimal_want": f2["want"]})]


def replay(case):
    exprcheck.reset_caches(force=True)
    return run_case(case)


# ------------------------------------------------------------------ shards

N = {"quick": {"concrete": 500, "symbolic": 120, "ctor": 400}, "thorough": {"concrete": 12000, "symbolic": 2500, "ctor": 8000}}
UNARY = [("fsqrt", True), ("to_fp_fp", True), ("to_sbv", True), ("to_ubv", True), ("fabs", False), ("fneg", False), ("to_ieee", False), ("isnan", False), ("isinf", False)]


def shards(tier, seed):
    out = []
    for i in range(6):
        out.append({"mode": "concrete", "i": i, "n": N[tier]["concrete"], "hseed": seed * 1000 + 200 + i})
    for i in range(3):
        out.append({"mode": "symbolic", "i": i, "n": N[tier]["symbolic"], "hseed": seed * 1000 + 220 + i})
    out.append({"mode": "ctor", "i": 0, "n": N[tier]["ctor"], "hseed": seed * 1000 + 230})
    for srt in fc.SORTS:
        for op in BIN + fc.FP_CMP:
            for part in range(2 if tier == "quick" else 1):
                out.append({"mode": "cross", "sort": srt, "op": op, "part": part, "parts": 2 if tier == "quick" else 1, "full": True})
        out.append({"mode": "unary", "sort": srt})
        for op in BIN + fc.FP_CMP:
            out.append({"mode": "symcross", "sort": srt, "op": op})
    return out


def _identity_consts(srt):
    """Constants that algebraic identities are written about: zeros, ones, two, a half, infinities, NaN, extremes."""
    vals = []
    for v in (0.0, -0.0, 1.0, -1.0, 2.0, 0.5, float("inf"), float("-inf")):
        vals.append(fc.float_to_bits(v, srt))
    mant = fc.SB[srt] - 1
    inf = ((1 << fc.EB[srt]) - 1) << mant
    p = fc.pool(srt)
    sub = min(b for b in p if b > 0)  # smallest subnormal
    big = max(b for b in p if b < inf)  # largest finite
    return sorted(set(vals + [sub, big, inf | (1 << (mant - 1)), inf | 1]))


def _envs_strategy(t):
    vars_ = fc.variables(fc.T(t))
    parts = {}
    for name, info in vars_.items():
        if info[0] == "fp":
            parts[name] = st.sampled_from(fc.pool(info[1]))
        elif info[0] == "bv":
            parts[name] = fc.int_consts(info[1]).map(lambda c: c[1])
        else:
            parts[name] = st.booleans()
    return st.lists(st.fixed_dictionaries(parts), min_size=6, max_size=6)


def run_shard(shard, ctx):
    mode = shard["mode"]

    def record(case, f_list, info, sample):
        ctx.case(case, info["nontrivial"], [f"mode:{mode}", *info["classes"]], sample=sample)
        for fp, obs in f_list:
            ctx.fail(fp, case, obs)

    if mode == "concrete":
        def body(v):
            tree, spell = v
            exprcheck.reset_caches()
            case = {"mode": "concrete", "tree": tree, "spell": spell}
            _f, info = check_concrete(tree, spell)
            record(case, run_case(case) if _f is not None else [], info, {"tree": fc.pretty(fc.T(tree)), "spell": spell})

        hyp.run(st.tuples(fc.any_tree(3, symbolic=False), st.integers(0, 2**16)), shard["n"], shard["hseed"], body, ctx)
        return
    if mode == "symbolic":
        @st.composite
        def strat(draw):
            t = draw(fc.any_tree(3, symbolic="mostly" if draw(st.booleans()) else True))
            return t, draw(st.integers(0, 2**16)), fc.envs_for(t, draw)

        def body(v):
            tree, spell, envs = v
            exprcheck.reset_caches()
            case = {"mode": "symbolic", "tree": tree, "spell": spell, "envs": envs}
            _f, info = check_symbolic(tree, spell, envs)
            record(case, run_case(case) if _f is not None else [], info, {"tree": fc.pretty(fc.T(tree)), "envs": envs[:2]})

        hyp.run(strat(), shard["n"], shard["hseed"], body, ctx)
        return
    if mode == "ctor":
        pool = fc.pool("DOUBLE")

        def body(bits):
            case = {"mode": "ctor", "bits": bits}
            f, info = check_ctor(bits)
            record(case, run_case(case) if f is not None else [], info, {"FPV(double, FLOAT)": repr(fc.bits_to_float(bits, "DOUBLE"))})

        hyp.run(st.one_of(st.sampled_from(pool), st.integers(0, 2**64 - 1),
                          st.sampled_from(fc.pool("FLOAT")).map(lambda b: fc.float_to_bits(fc.bits_to_float(b, "FLOAT"), "DOUBLE") + 1)),
                shard["n"], shard["hseed"], body, ctx)
        return
    srt = shard["sort"]
    pool = fc.pool(srt)
    if mode == "symcross":
        # one operand symbolic, the other an "identity" constant (or the same variable again, or its negation): the shapes an
        # algebraic rewrite is written for; the symbolic operand then ranges over the whole boundary pool and results are
        # compared bit for bit (signed zeros!) with the independently built term under every rounding mode
        op = shard["op"]
        rms = fc.RMS if op in BIN else (None,)
        x = ("fvar", "f0_" + srt[0], srt)
        others = [("fconst", c, srt) for c in _identity_consts(srt)] + [x, ("fneg", x), ("fabs", x)]
        envs = [{x[1]: v} for v in pool]
        n = 0
        for o in others:
            for a, b in ((x, o), (o, x)):
                for rm in rms:
                    if ctx.out_of_time():
                        return
                    t = (op, rm, a, b) if rm else (op, a, b)
                    wrapped = [t] if op in fc.FP_CMP else [t, ("to_ieee", t)]
                    for tt in wrapped[:1]:
                        case = {"mode": "symbolic", "tree": tt, "spell": 0, "envs": envs}
                        f, info = check_symbolic(tt, 0, envs)
                        n += 1
                        record(case, run_case(case) if f is not None else [], info, {"tree": fc.pretty(tt)})
        ctx.extra["enumerated_pool_cases"] = n
        return
    if mode == "cross":
        op = shard["op"]
        rms = fc.RMS if op in BIN else (None,)
        pairs = list(itertools.product(pool, pool))[shard["part"] :: shard["parts"]]
        if not shard["full"]:
            # quick tier: every pair for RNE-sensitive classes would be too slow; take a fixed stride through the product, every rounding mode
            pairs = pairs[shard["part"] :: 6]  # (unused: every tier enumerates the full product)
        n = 0
        for a, b in pairs:
            for rm in rms:
                if ctx.out_of_time():
                    return
                t = (op, rm, ("fconst", a, srt), ("fconst", b, srt)) if rm else (op, ("fconst", a, srt), ("fconst", b, srt))
                case = {"mode": "cross", "tree": t, "spell": 0}
                f, info = check_concrete(t, 0)
                n += 1
                record(case, run_case(case) if f is not None else [], info, {"tree": fc.pretty(t)})
        ctx.extra["enumerated_pool_cases"] = n
        if shard["full"]:
            ctx.extra["exhaustive"] = True
            ctx.extra["exhaustive_subdomain"] = "boundary pool x boundary pool x {add,sub,mul,div} x 5 rounding modes and x 6 comparisons, both sorts; unary/conversion operations over the pool x 5 modes"
        return
    # unary / conversions over the pool
    other = "DOUBLE" if srt == "FLOAT" else "FLOAT"
    n = 0
    for a in pool:
        x = ("fconst", a, srt)
        trees = [("fabs", x), ("fneg", x), ("to_ieee", x), ("isnan", x), ("isinf", x)]
        for rm in fc.RMS:
            trees += [("fsqrt", rm, x), ("to_fp_fp", rm, x, other), ("to_fp_fp", rm, x, srt)]
            for size in (8, 32, 64):
                trees += [("to_sbv", rm, x, size), ("to_ubv", rm, x, size)]
        for t in trees:
            if ctx.out_of_time():
                return
            case = {"mode": "unary", "tree": t, "spell": 0}
            f, info = check_concrete(t, 0)
            n += 1
            record(case, run_case(case) if f is not None else [], info, {"tree": fc.pretty(t)})
    for size in (8, 32, 64, 65):
        for c in sorted({0, 1, (1 << size) - 1, 1 << (size - 1), (1 << (size - 1)) - 1, (2**24 + 1) % (1 << size), (2**53 + 1) % (1 << size), (2**63 + 2**10 + 1) % (1 << size),
                         0x7FFFFFBF % (1 << size), 0xFFFFFF7F % (1 << size), (2**64 - 2**10 - 1) % (1 << size), 3, 255 % (1 << size)}):
            for rm in fc.RMS:
                for op in ("to_fp_sbv", "to_fp_ubv"):
                    t = (op, rm, ("const", c, size), srt)
                    case = {"mode": "unary", "tree": t, "spell": 0}
                    f, info = check_concrete(t, 0)
                    n += 1
                    record(case, run_case(case) if f is not None else [], info, {"tree": fc.pretty(t)})
    ctx.extra["enumerated_pool_cases"] = n


def shrink(case, obs, fp, matcher, deadline):
    if case["mode"] in ("ctor",):
        return case, obs

    def still(c):
        for f, o in run_case(c):
            if f == fp and matcher.match(f, c, o) is None:
                return o
        return None

    def cands(c):
        t = fc.T(c["tree"])
        for s in fc.subtrees(t):
            if s is not t and fc.children(s) and fc.kind(s) == fc.kind(t):
                yield {**c, "tree": s}
        if c.get("spell"):
            yield {**c, "spell": 0}
        if c["mode"] == "symbolic" and len(c["envs"]) > 1:
            for e in c["envs"]:
                yield {**c, "envs": [e]}

    c2, o2 = shrinker.greedy(dict(case), cands, still, deadline)
    return c2, (o2 if o2 is not None else obs)


KNOWN_PREDICATES = {}
