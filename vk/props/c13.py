"""C13 -- replacement and hybrid solvers: exact where promised, over-approximate otherwise."""

from __future__ import annotations

from . import _solverprop as sp

ID = "C13"
LEVEL = "exploration"
RULE = (
    "Solver histories (random + cache-directed scenario rounds + directed scenarios 'queries with refutable extra constraints, then the same "
    "queries without them, on the solver and a branch' and 'exhaust two variable groups, then bridge them'; <=40 steps, add / all queries with and without extras / simplify / "
    "branch / merge / combine / split / blank_copy) on: SolverReplacement() with its default safe settings, SolverReplacement("
    "auto_replace=False), SolverHybrid() queried with exact=None/True (exact mode) - all checked for *equality* with the brute-force "
    "model set over 2^17 assignments - and SolverHybrid queried with exact=False (approximate mode), checked for *containment*: "
    "satisfiable never False on a satisfiable set, min <= true min, max >= true max, eval with fewer than n results contains every "
    "feasible value, solution True for every feasible value, is_true/is_false one-sided. The alphabet favours what feeds replacements "
    "(x == c, b, Not(b), bounds, constraints mentioning replaced terms later). Non-trivial: the history has an equality / Boolean-literal "
    "constraint followed by a later constraint or query, or an approximate query on a constrained variable; distinct by SHA-1 of "
    "(configuration, history)."
)
ASSUMPTIONS = ["ClaripyFrontendError from the approximate frontend counts as 'declined', not as a failure", "latitude of DESIGN 3.2"]
BUDGET_S = {"quick": 240, "thorough": 3000}
CONFIGS = [
    {"frontend": "SolverReplacement"},
    {"frontend": "SolverReplacement-noauto"},
    {"frontend": "SolverHybrid", "exact_kw": [None, True]},
    {"frontend": "SolverHybrid", "exact_kw": [False], "approx": True},
    {"frontend": "SolverHybrid", "exact_kw": [None, True, False], "approx": True},
]
GROUPS = ("core", "maint", "branch", "algebra")


def shards(tier, seed):
    return sp.shards_for(tier, seed, 1300, CONFIGS, 150, 4000, per_quick=3, per_thorough=5)


def nontrivial(res):
    s = res.stats
    return bool(s.get("adds", 0) >= 1 and s.get("queries", 0) >= 2)


def run_shard(shard, ctx):
    from hypothesis import strategies as st

    from .. import solver_machine as sm

    groups = (*GROUPS, "sat-heavy") if shard.get("approx") else GROUPS
    # the last shard of every configuration runs the directed scenarios (extras must not outlive their query; exhaust then bridge)
    strategy = None
    if shard["i"] == 2:
        strategy = st.one_of(sm.scenario_extras_do_not_stick(shard.get("exact_kw")), sm.scenario_extras_do_not_stick(shard.get("exact_kw")), sm.scenario_exhaust_then_bridge(shard.get("exact_kw")))
    sp.run_random(shard, ctx, groups, nontrivial, exact_kw=shard.get("exact_kw"), strategy=strategy,
                  extra=[f"mode:{'approx' if shard.get('approx') else 'exact'}", *(["scenario"] if strategy is not None else [])])


replay = sp.replay
shrink = sp.shrink
KNOWN_PREDICATES = {}
