"""C26 -- values extracted from models are values the expression actually takes."""

from __future__ import annotations

import math
import struct

import claripy
import z3
from hypothesis import strategies as st

from .. import build_claripy, exprcheck, fpcheck, hyp, ir, sem_z3, shrink as shrinker, strcheck

ID = "C26"
LEVEL = "exploration"
RULE = (
    "A case is (sort family, frontend class, constraint set, queries). Constraint sets pin or narrowly bound expressions at boundary "
    "values: bit-vectors of width 1/8/63/64/65/128/256 (0, 1, 2^63, 2^64-1, 2^64, 2^n-1, masks, tight signed/unsigned ranges, arithmetic "
    "and extract/concat pins), floats of both sorts (signed zeros, infinities, NaN, smallest/largest subnormal, largest finite, 0.1, "
    "1/3, 2^80, 2^-80; pinned through fpToIEEEBV, fpEQ, isNaN/isInf, arithmetic in a generated rounding mode, tight ranges), strings over "
    "an alphabet with NUL, backslash, escape-looking text, regex metacharacters, non-ASCII and astral code points (equality, "
    "concatenation, length+prefix, contains, IntToStr); plus random small constraint sets. Queries eval / batch_eval / min / max on "
    "variables and on expressions over them, each issued twice (second answer may come from the model cache) on Solver, SolverCacheless, "
    "SolverComposite and SolverStrings. Oracle: every returned Python value is re-encoded independently (BitVecVal; IEEE bits via struct, "
    "NaN as fpIsNaN, structural = so -0 != +0; code-point string literal) and `constraints AND e = literal` must be SAT in an "
    "oracle-owned z3.Solver whose constraints are rebuilt from the IR (never taken from the solver under test); the Python type and "
    "range of the value are checked too. Non-trivial: the value is a boundary value of its sort (special float class, width > 64, "
    "top bit set, non-alphanumeric character) ; distinct by SHA-1 of the case."
)
ASSUMPTIONS = [
    "Z3 4.13 decides the re-assertion queries (bit-vectors exactly; FP and strings by its own procedures); timeouts are counted inconclusive",
    "fp.to_sbv/to_ubv are not used in queries (their out-of-range results are unspecified); min/max only on bit-vector expressions",
]
BUDGET_S = {"quick": 220, "thorough": 2400}
GRACE_S = 120
SUT_TIMEOUT_MS = 4000
ORACLE_TIMEOUT_MS = {"quick": 4000, "thorough": 20000}
_TIER = "quick"

FRONTENDS = {
    "Solver": lambda: claripy.Solver(timeout=SUT_TIMEOUT_MS),
    "SolverCacheless": lambda: claripy.SolverCacheless(timeout=SUT_TIMEOUT_MS),
    "SolverComposite": lambda: claripy.SolverComposite(template_solver=claripy.solvers.SolverCompositeChild(timeout=SUT_TIMEOUT_MS)),
    "SolverStrings": lambda: claripy.SolverStrings(timeout=SUT_TIMEOUT_MS),
}

# ------------------------------------------------------------------ per-family plumbing


def _T(fam, t):
    return {"bv": ir.T, "fp": fpcheck.T, "str": strcheck.T}[fam](t)


def build_sut(fam, t, spell=0):
    t = _T(fam, t)
    if fam == "bv":
        return build_claripy.build(t, build_claripy.Chooser(spell))
    if fam == "fp":
        return fpcheck.build(t, build_claripy.Chooser(spell))
    return strcheck.build(t, build_claripy.Chooser(spell))


def build_ref(fam, t):
    t = _T(fam, t)
    if fam == "bv":
        return sem_z3.build(t)
    if fam == "fp":
        return fpcheck.z3term(t)
    return strcheck.z3term(t)


def pretty(fam, t):
    t = _T(fam, t)
    return {"bv": ir.pretty, "fp": fpcheck.pretty, "str": strcheck.pretty}[fam](t)


def literal_for(term, v):
    """-> (z3 constraint `term = literal(v)`, value class) or raises ValueError(reason) if v is not a value of the sort at all."""
    if z3.is_bool(term):
        if type(v) is not bool:
            raise ValueError(f"wrong-type:{type(v).__name__}-for-bool")
        return term == z3.BoolVal(v), "bool"
    if z3.is_bv(term):
        n = term.size()
        if type(v) is not int:
            raise ValueError(f"wrong-type:{type(v).__name__}-for-bv")
        if not 0 <= v < (1 << n):
            raise ValueError("out-of-range-for-width")
        cls = "bv:wide" if n > 64 else "bv:topbit" if v >> (n - 1) else "bv:max" if v == (1 << n) - 1 else "bv:plain"
        return term == z3.BitVecVal(v, n), cls
    if z3.is_fp(term):
        if type(v) is not float:
            raise ValueError(f"wrong-type:{type(v).__name__}-for-fp")
        srt = "FLOAT" if term.sort().sbits() == 24 else "DOUBLE"
        if math.isnan(v):
            return z3.fpIsNaN(term), "fp:nan"
        if srt == "FLOAT":
            try:
                packed = struct.pack("<f", v)
            except OverflowError:
                raise ValueError("not-a-float32-value") from None
            if struct.unpack("<f", packed)[0] != v:
                raise ValueError("not-a-float32-value")
            bits = struct.unpack("<I", packed)[0]
        else:
            bits = struct.unpack("<Q", struct.pack("<d", v))[0]
        lit = z3.fpBVToFP(z3.BitVecVal(bits, fpcheck.BITS[srt]), fpcheck.z3sort(srt))
        return z3.And(z3.Not(z3.fpIsNaN(term)), term == lit), "fp:" + fpcheck.special_class(bits, srt)
    if z3.is_seq(term):
        if type(v) is not str:
            raise ValueError(f"wrong-type:{type(v).__name__}-for-string")
        plain = all(c.isascii() and c.isalnum() for c in v)
        return term == strcheck.lit(v), "str:plain" if plain else "str:special"
    raise ValueError("unsupported-sort")


def _is_value(term):
    return z3.is_bv_value(term) or z3.is_true(term) or z3.is_false(term) or z3.is_fp_value(term) or z3.is_string_value(term)


def oracle_sat(ref_constraints, extra):
    s = z3.Solver()
    s.set("timeout", ORACLE_TIMEOUT_MS[_TIER])
    for c in ref_constraints:
        s.add(c)
    for c in extra:
        s.add(c)
    r = s.check()
    return "sat" if r == z3.sat else "unsat" if r == z3.unsat else "unknown"


# ------------------------------------------------------------------ the check


def check_case(case):
    """-> (failures [(fp, obs)], info)"""
    fam = case["ir"]
    fe = case["frontend"]
    info = {"classes": [f"ir:{fam}", f"frontend:{fe}"], "nontrivial": False, "values": 0, "inconclusive": 0, "sut_timeout": 0}
    fails = []
    spell = case.get("spell", 0)
    cons_sut = [build_sut(fam, c, spell) for c in case["constraints"]]
    cons_ref = [build_ref(fam, c) for c in case["constraints"]]
    s = FRONTENDS[fe]()
    try:
        s.add(cons_sut)
    except claripy.errors.ClaripyError as e:
        fails.append((f"{fam}:{fe}:add:raises:{type(e).__name__}", {"exc": repr(e)[:200]}))
        return fails, info

    def judge(qi, q, what, term_refs, values):
        """values: tuple of python values, one per term."""
        lits = []
        for term, v in zip(term_refs, values, strict=True):
            try:
                lit, cls = literal_for(term, v)
            except ValueError as e:
                fails.append((f"{fam}:{fe}:{q['op']}:{e}", {"query": qi, "what": what, "value": repr(v)[:120]}))
                return
            info["classes"].append("value:" + cls)
            if cls not in ("bv:plain", "bool", "fp:normal", "str:plain"):
                info["nontrivial"] = True
            lits.append(lit)
        info["values"] += 1
        r = oracle_sat(cons_ref, lits)
        if r == "unsat" and all(_is_value(z3.simplify(t_)) for t_ in term_refs) and oracle_sat(cons_ref, []) == "unsat":
            # DESIGN 3.2 latitude: a query expression that is semantically a constant is answered without the solver,
            # also on an unsatisfiable constraint set; the value is right, there is just no model at all
            info["classes"].append("constant-query-on-unsat-set")
            return
        if r == "unknown":
            info["inconclusive"] += 1
        elif r == "unsat":
            fails.append((f"{fam}:{fe}:{q['op']}:value-not-taken:" + "+".join(sorted({c.split(':')[1] for c in info['classes'][-len(lits):]})),
                          {"query": qi, "what": what, "value": repr(values)[:200], "pass": q.get("_pass", 0)}))

    for qi, q in enumerate(case["queries"]):
        for rep in range(2):
            q = {**q, "_pass": rep}
            try:
                if q["op"] == "eval":
                    e = build_sut(fam, q["e"], spell)
                    r = s.eval(e, q["n"])
                    ref = build_ref(fam, q["e"])
                    if len(set(map(repr, r))) != len(r):
                        fails.append((f"{fam}:{fe}:eval:duplicate-values", {"query": qi, "values": repr(r)[:200]}))
                    for v in r:
                        judge(qi, q, pretty(fam, q["e"]), [ref], (v,))
                elif q["op"] == "batch":
                    es = [build_sut(fam, t, spell) for t in q["es"]]
                    r = s.batch_eval(es, q["n"])
                    refs = [build_ref(fam, t) for t in q["es"]]
                    for tup in r:
                        if len(tup) != len(refs):
                            fails.append((f"{fam}:{fe}:batch:wrong-arity", {"query": qi, "values": repr(tup)[:200]}))
                            continue
                        judge(qi, q, [pretty(fam, t) for t in q["es"]], refs, tuple(tup))
                elif q["op"] in ("min", "max"):
                    e = build_sut(fam, q["e"], spell)
                    v = getattr(s, q["op"])(e, signed=q.get("signed", False))
                    ref = build_ref(fam, q["e"])
                    if type(v) is int and v < 0 and q.get("signed", False):
                        v += 1 << ref.size()
                    judge(qi, q, pretty(fam, q["e"]), [ref], (v,))
            except claripy.errors.UnsatError:
                r = oracle_sat(cons_ref, [])
                if r == "sat":
                    fails.append((f"{fam}:{fe}:{q['op']}:UnsatError-on-satisfiable", {"query": qi}))
                elif r == "unknown":
                    info["inconclusive"] += 1
                else:
                    info["classes"].append("unsat-set")
            except (claripy.errors.ClaripySolverInterruptError, claripy.errors.ClaripyZ3Error):
                info["sut_timeout"] += 1
                info["classes"].append("sut-timeout")
                return fails, info
            except claripy.errors.ClaripyFrontendError as e:
                info["classes"].append("declined:" + q["op"])
                if "min" not in q["op"] and "max" not in q["op"]:
                    fails.append((f"{fam}:{fe}:{q['op']}:raises:ClaripyFrontendError", {"query": qi, "exc": repr(e)[:200]}))
            except Exception as e:  # noqa: BLE001 - any other exception out of a query is an observation
                fails.append((f"{fam}:{fe}:{q['op']}:raises:{exprcheck.exc_fingerprint(e)}", {"query": qi, "exc": repr(e)[:200]}))
                break
    return fails, info


def replay(case):
    exprcheck.reset_caches(force=True)
    fails, _ = check_case(case)
    out = {}
    for fp, obs in fails:
        out.setdefault(fp, obs)
    return list(out.items())


# ------------------------------------------------------------------ generators

WIDTHS = (1, 8, 63, 64, 65, 128, 256, 16, 32)


def _bvals(n):
    m = (1 << n) - 1
    vals = {0, 1, m, m - 1, 1 << (n - 1), (1 << (n - 1)) - 1, (1 << (n - 1)) + 1, (1 << 63) & m, ((1 << 64) - 1) & m, (1 << 64) & m, 0x80 & m, 0xFF & m, 12345 & m}
    return st.one_of(st.sampled_from(sorted(vals)), st.integers(0, m))


def _c(v, n):
    return ("const", v & ((1 << n) - 1), n)


@st.composite
def bv_expr(draw, n, names):
    x = ("var", f"{draw(st.sampled_from(names))}_{n}", n)
    k = draw(st.integers(0, 11))
    if k <= 3:
        return x
    y = ("var", f"{draw(st.sampled_from(names))}_{n}", n)
    c = _c(draw(_bvals(n)), n)
    if k == 4:
        return ("bvadd", x, c)
    if k == 5:
        return ("bvxor", x, y)
    if k == 6:
        return ("bvlshr", x, _c(draw(st.sampled_from((1, n - 1, n // 2))), n))
    if k == 7:
        return ("bvmul", x, _c(draw(st.sampled_from((3, 5, (1 << n) - 1))), n))
    if k == 8:
        return ("bvnot", x)
    if k == 9:
        return ("bvneg", x)
    if k == 10:
        return ("bvand", x, c)
    return ("bvsub", c, x)


@st.composite
def bv_case(draw):
    n = draw(st.sampled_from(WIDTHS))
    names = ("x", "y")
    x = ("var", f"x_{n}", n)
    y = ("var", f"y_{n}", n)
    cons = []
    for _ in range(draw(st.integers(1, 3))):
        k = draw(st.integers(0, 9))
        v = draw(_bvals(n))
        tgt = draw(st.sampled_from((x, y, x)))
        if k == 0:
            cons.append(("eq", tgt, _c(v, n)))
        elif k == 1:
            m = draw(_bvals(n))
            cons.append(("eq", ("bvand", tgt, _c(m, n)), _c(v & m, n)))
        elif k == 2:
            span = draw(st.integers(0, 3))
            cons.append(("and", ("uge", tgt, _c(v, n)), ("ule", ("bvsub", tgt, _c(v, n)), _c(span, n))))
        elif k == 3:
            span = draw(st.integers(0, 3))
            cons.append(("and", ("sge", tgt, _c(v, n)), ("sle", tgt, _c(v + span, n))) if (v + span) < (1 << n) and ((v >> (n - 1)) == ((v + span) >> (n - 1))) else ("eq", tgt, _c(v, n)))
        elif k == 4:
            cons.append(("eq", ("bvadd", tgt, _c(draw(_bvals(n)), n)), _c(v, n)))
        elif k == 5:
            cons.append(("eq", ("bvmul", tgt, _c(draw(st.sampled_from((3, 5, 7))), n)), _c(v, n)))
        elif k == 6 and n >= 8:
            hi = draw(st.integers(n // 2, n - 1))
            cons.append(("eq", ("extract", n - 1, hi, tgt), _c(v >> hi, n - hi)))
        elif k == 7:
            cons.append(("ugt", tgt, _c(((1 << n) - 1) - draw(st.integers(1, 3)), n)) if n > 2 else ("eq", tgt, _c(v, n)))
        elif k == 8:
            cons.append((draw(st.sampled_from(("ult", "slt", "ne", "sgt"))), x, y))
        else:
            cons.append((draw(st.sampled_from(ir.BV_CMP)), draw(bv_expr(n, names)), draw(st.one_of(bv_expr(n, names), _bvals(n).map(lambda q: _c(q, n))))))
    qs = []
    for _ in range(draw(st.integers(1, 3))):
        k = draw(st.integers(0, 7))
        e = draw(bv_expr(n, names))
        if k <= 2:
            qs.append({"op": "eval", "e": e, "n": draw(st.sampled_from((1, 2, 5)))})
        elif k == 3:
            qs.append({"op": "batch", "es": [x, draw(bv_expr(n, names))], "n": draw(st.sampled_from((1, 3)))})
        elif k == 4:
            qs.append({"op": "eval", "e": (draw(st.sampled_from(("ult", "sle", "eq"))), e, _c(draw(_bvals(n)), n)), "n": 2})
        elif k == 5 and n >= 8:
            qs.append({"op": "eval", "e": ("concat", ("extract", n - 1, n - 4, x), e), "n": 2})
        else:
            qs.append({"op": draw(st.sampled_from(("min", "max"))), "e": e, "signed": draw(st.booleans())})
    fe = draw(st.sampled_from(("Solver", "Solver", "SolverCacheless", "SolverComposite")))
    return {"ir": "bv", "frontend": fe, "constraints": cons, "queries": qs, "spell": draw(st.integers(0, 2**16))}


def _fc(bits, srt):
    return ("fconst", bits, srt)


@st.composite
def fp_case(draw):
    srt = draw(st.sampled_from(("FLOAT", "DOUBLE", "FLOAT")))
    n = fpcheck.BITS[srt]
    x = ("fvar", f"f0_{srt[0]}", srt)
    y = ("fvar", f"f1_{srt[0]}", srt)
    pool = fpcheck.pool(srt)
    bits = draw(st.one_of(st.sampled_from(pool), st.integers(0, (1 << n) - 1)))
    rm = draw(st.sampled_from(fpcheck.RMS + ("RNE",)))
    cons = []
    k = draw(st.integers(0, 9))
    isnan = fpcheck.bits_is_nan(bits, srt)
    if k <= 2:
        cons.append(("isnan", x) if isnan else ("eq", ("to_ieee", x), ("const", bits, n)))
    elif k == 3:
        cons.append(("isnan", x) if isnan else ("feq", x, _fc(bits, srt)))
    elif k == 4:
        cons.append(("isinf", x))
        if draw(st.booleans()):
            cons.append(("flt", x, _fc(0, srt)))
    elif k == 5:
        other = draw(st.sampled_from(pool))
        cons.append(("feq", ("fadd", rm, x, _fc(other, srt)), _fc(bits, srt)) if not isnan else ("isnan", ("fadd", rm, x, _fc(other, srt))))
    elif k == 6:
        lo = draw(st.sampled_from(pool))
        cons.append(("fge", x, _fc(lo, srt)))
        cons.append(("fle", x, _fc((lo + draw(st.integers(0, 3))) & ((1 << n) - 1), srt)))
    elif k == 7:
        cons.append(("eq", ("to_ieee", x), ("const", bits, n)) if not isnan else ("isnan", x))
        cons.append(("feq", y, ("fmul", rm, x, _fc(draw(st.sampled_from(pool)), srt))))
    elif k == 8:
        wb = draw(st.sampled_from((8, 32, 64)))
        cons.append(("feq", x, ("to_fp_sbv" if draw(st.booleans()) else "to_fp_ubv", rm, ("var", f"b0_{wb}", wb), srt)))
        cons.append(("eq", ("var", f"b0_{wb}", wb), ("const", draw(fpcheck.int_consts(wb))[1], wb)))
    else:
        other = "DOUBLE" if srt == "FLOAT" else "FLOAT"
        z = ("fvar", f"f0_{other[0]}", other)
        cons.append(("feq", x, ("to_fp_fp", rm, z, srt)))
        ob = draw(st.sampled_from(fpcheck.pool(other)))
        cons.append(("isnan", z) if fpcheck.bits_is_nan(ob, other) else ("eq", ("to_ieee", z), ("const", ob, fpcheck.BITS[other])))
    qs = []
    for _ in range(draw(st.integers(1, 3))):
        j = draw(st.integers(0, 6))
        if j <= 1:
            qs.append({"op": "eval", "e": x, "n": draw(st.sampled_from((1, 2, 3)))})
        elif j == 2:
            qs.append({"op": "eval", "e": (draw(st.sampled_from(fpcheck.FP_ARITH)), draw(st.sampled_from(fpcheck.RMS)), x, _fc(draw(st.sampled_from(pool)), srt)), "n": 1})
        elif j == 3:
            qs.append({"op": "eval", "e": draw(st.sampled_from((("isnan", x), ("isinf", x), ("flt", x, _fc(0, srt)), ("feq", x, x)))), "n": 2})
        elif j == 4:
            qs.append({"op": "eval", "e": (draw(st.sampled_from(("fneg", "fabs"))), x), "n": 1})
        elif j == 5:
            other = "DOUBLE" if srt == "FLOAT" else "FLOAT"
            qs.append({"op": "eval", "e": ("to_fp_fp", draw(st.sampled_from(fpcheck.RMS)), x, other), "n": 1})
        else:
            qs.append({"op": "batch", "es": [x, ("fneg", x)], "n": 2})
    fe = draw(st.sampled_from(("Solver", "Solver", "SolverCacheless", "SolverComposite")))
    return {"ir": "fp", "frontend": fe, "constraints": cons, "queries": qs, "spell": draw(st.integers(0, 2**16))}


@st.composite
def str_case(draw):
    t = ("svar", "s0")
    u = ("svar", "s1")
    val = draw(strcheck.texts(5))
    cons = []
    k = draw(st.integers(0, 7))
    if k <= 2:
        cons.append(("seq", t, ("sconst", val)))
    elif k == 3:
        suffix = draw(strcheck.texts(2))
        cons.append(("seq", ("sconcat", t, ("sconst", suffix)), ("sconst", val + suffix)))
    elif k == 4:
        cons.append(("eq", ("slen", t), ("const", len(val), 64)))
        cons.append(("prefixof", ("sconst", val[: max(0, len(val) - 1)]), t))
    elif k == 5:
        cons.append(("contains", t, ("sconst", val)))
        cons.append(("eq", ("slen", t), ("const", len(val) + draw(st.integers(0, 1)), 64)))
    elif k == 6:
        cons.append(("seq", t, ("from_int", ("const", draw(st.sampled_from((0, 7, 10, 12345, 2**63, 2**64 - 1))), 64))))
    else:
        cons.append(("seq", t, ("sconst", val)))
        cons.append(("seq", u, ("sconcat", t, ("sconst", draw(strcheck.texts(2))), t)))
    qs = []
    for _ in range(draw(st.integers(1, 3))):
        j = draw(st.integers(0, 7))
        if j <= 1:
            qs.append({"op": "eval", "e": t, "n": draw(st.sampled_from((1, 2)))})
        elif j == 2:
            qs.append({"op": "eval", "e": ("slen", t), "n": 2})
        elif j == 3:
            qs.append({"op": "eval", "e": ("sconcat", t, ("sconst", draw(strcheck.texts(2)))), "n": 1})
        elif j == 4:
            qs.append({"op": "eval", "e": ("substr", t, ("const", draw(st.sampled_from((0, 1, 2))), 64), ("const", draw(st.sampled_from((0, 1, 2, 2**63))), 64)), "n": 1})
        elif j == 5:
            qs.append({"op": "eval", "e": draw(st.sampled_from((("to_int", t), ("indexof", t, ("sconst", val[:1]), ("const", 0, 64)), ("indexof", t, ("sconst", ""), ("const", len(val) + 1, 64)), ("indexof", t, ("sconst", val[:1]), ("const", 1 << 62, 64)), ("indexof", t, ("sconst", ""), ("const", (1 << 64) - 1, 64))))), "n": 1})
        elif j == 6:
            qs.append({"op": "eval", "e": draw(st.sampled_from((("prefixof", ("sconst", val[:1]), t), ("contains", t, ("sconst", ".")), ("suffixof", ("sconst", val[-1:]), t), ("seq", t, ("sconst", val))))), "n": 2})
        else:
            qs.append({"op": "batch", "es": [t, ("slen", t)], "n": 1})
    if k == 7:
        qs.append({"op": "eval", "e": u, "n": 1})
    fe = draw(st.sampled_from(("SolverStrings", "Solver", "SolverComposite", "SolverStrings")))
    return {"ir": "str", "frontend": fe, "constraints": cons, "queries": qs, "spell": draw(st.integers(0, 2**16))}


N = {"quick": {"bv": 260, "fp": 110, "str": 90}, "thorough": {"bv": 6000, "fp": 2000, "str": 1500}}


def shards(tier, seed):
    out = []
    for fam, per in (("bv", 5), ("fp", 6), ("str", 5)):
        for i in range(per):
            out.append({"fam": fam, "i": i, "n": N[tier][fam], "hseed": seed * 1000 + 2600 + len(out)})
    return out


def run_shard(shard, ctx):
    global _TIER
    _TIER = ctx.tier
    fam = shard["fam"]
    strat = {"bv": bv_case, "fp": fp_case, "str": str_case}[fam]()

    def body(case):
        exprcheck.reset_caches()
        fails, info = check_case(case)
        ctx.count("values_checked", info["values"])
        ctx.count("oracle_inconclusive", info["inconclusive"])
        ctx.count("sut_timeout", info["sut_timeout"])
        ctx.case(case, info["nontrivial"], sorted(set(info["classes"])),
                 sample={"ir": fam, "frontend": case["frontend"], "constraints": [pretty(fam, c) for c in case["constraints"]],
                         "queries": [{**q, **({"e": pretty(fam, q["e"])} if "e" in q else {"es": [pretty(fam, t) for t in q["es"]]})} for q in case["queries"]]})
        seen = set()
        for fp, obs in fails:
            if fp not in seen:
                seen.add(fp)
                ctx.fail(fp, case, obs)

    hyp.run(strat, shard["n"], shard["hseed"], body, ctx)


def shrink(case, obs, fp, matcher, deadline):
    def still(c):
        for f, o in replay(c):
            if f == fp and matcher.match(f, c, o) is None:
                return o
        return None

    def cands(c):
        if len(c["queries"]) > 1:
            for i in range(len(c["queries"])):
                yield {**c, "queries": c["queries"][:i] + c["queries"][i + 1 :]}
        if len(c["constraints"]) > 1:
            for i in range(len(c["constraints"])):
                yield {**c, "constraints": c["constraints"][:i] + c["constraints"][i + 1 :]}
        if c.get("spell"):
            yield {**c, "spell": 0}
        for i, q in enumerate(c["queries"]):
            if q.get("n", 1) > 1:
                yield {**c, "queries": c["queries"][:i] + [{**q, "n": 1}] + c["queries"][i + 1 :]}

    c2, o2 = shrinker.greedy(dict(case), cands, still, deadline)
    return c2, (o2 if o2 is not None else obs)


KNOWN_PREDICATES = {}
