"""C12 -- SolverComposite answers like a monolithic solver after any history."""

from __future__ import annotations

from . import _solverprop as sp

ID = "C12"
LEVEL = "exploration"
RULE = (
    "Histories (<=40 steps; random, cache-directed 'scenario' rounds that repeat the same queries after further adds, and -- every third "
    "shard -- directed scenarios: two variable groups enumerated completely, then bridged by one constraint, then re-queried on the solver, "
    "after simplify/split and on a branch taken before; queries with refutable extra constraints followed by the same queries without; helper "
    "children left behind by min / max / exhaustive eval of a term over unconstrained variables, a solver cached for one of those variables "
    "alone, then a bridge to the other one and a late constraint on the first) of add / "
    "queries with and without extras / simplify / downsize / branch / split / combine / merge / blank_copy on SolverComposite (default "
    "template and track=True), over 4 four-bit variables and a Boolean whose constraints connect and disconnect variable groups in every "
    "order (single-variable constraints, bridging constraints, bridging extras, concrete true/false). Oracle: the brute-force model set "
    "over all 2^17 assignments - it has no notion of child solvers at all - checked after every step; after simplify() the stored "
    "constraints must still have exactly that model set. Also the string histories of C11 (finite-domain string variables, Python SMT-LIB reference) on SolverComposite, where the two string "
    "variables start in separate children and constraints over both bridge them. Non-trivial: the history contains a bridging add (joins previously independent "
    "groups), or a simplify/split after one, or a branch with adds on both sides; distinct by SHA-1 of (frontend, history)."
)
ASSUMPTIONS = ["same latitude as C11 (DESIGN 3.2)", "brute-force reference exact within 17 variable bits"]
BUDGET_S = {"quick": 240, "thorough": 3000}
CONFIGS = [{"frontend": "SolverComposite"}, {"frontend": "SolverComposite-track"}, {"frontend": "SolverComposite", "reuse": True}]
GROUPS = ("core", "maint", "branch", "algebra")


def shards(tier, seed):
    out = sp.shards_for(tier, seed, 1200, CONFIGS, 220, 5000, per_quick=5, per_thorough=6)
    for i in range(3 if tier == "quick" else 8):
        out.append({"kind": "str", "frontend": "SolverComposite", "i": i, "n": 22 if tier == "quick" else 500, "hseed": seed * 1000 + 1280 + i})
    return out


def nontrivial(res):
    s = res.stats
    return bool(s.get("bridging") or (s.get("branches") and s.get("adds", 0) >= 2) or s.get("algebra"))


def run_shard(shard, ctx):
    from hypothesis import strategies as st

    from .. import solver_machine as sm

    if shard.get("kind") == "str":
        from . import c11

        return c11.run_shard({**shard, "reuse": False}, ctx)

    # every third shard runs the directed scenarios (exhaust two groups, then bridge them; extras must not stick)
    strategy = st.one_of(sm.scenario_exhaust_then_bridge(), sm.scenario_helper_children(), sm.scenario_extras_do_not_stick()) if shard["i"] % 3 == 2 else None
    sp.run_random(shard, ctx, GROUPS, nontrivial, strategy=strategy, extra=("scenario",) if strategy is not None else None)


def replay(case):
    if "domains" in case:
        from . import c11

        return c11.replay(case)
    return sp.replay(case)


def shrink(case, obs, fp, matcher, deadline):
    if "domains" in case:
        from . import c11

        return c11.shrink(case, obs, fp, matcher, deadline)
    return sp.shrink(case, obs, fp, matcher, deadline)


KNOWN_PREDICATES = {}
