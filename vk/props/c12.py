"""C12 -- SolverComposite answers like a monolithic solver after any history."""

from __future__ import annotations

from . import _solverprop as sp

ID = "C12"
LEVEL = "exploration"
RULE = (
    "Histories (<=40 steps; random, cache-directed 'scenario' rounds that repeat the same queries after further adds, and -- every third "
    "shard -- directed scenarios: two variable groups enumerated completely, then bridged by one constraint, then re-queried on the solver, "
    "after simplify/split and on a branch taken before; queries with refutable extra constraints followed by the same queries without) of add / "
    "queries with and without extras / simplify / downsize / branch / split / combine / merge / blank_copy on SolverComposite (default "
    "template and track=True), over 4 four-bit variables and a Boolean whose constraints connect and disconnect variable groups in every "
    "order (single-variable constraints, bridging constraints, bridging extras, concrete true/false). Oracle: the brute-force model set "
    "over all 2^17 assignments - it has no notion of child solvers at all - checked after every step; after simplify() the stored "
    "constraints must still have exactly that model set. Non-trivial: the history contains a bridging add (joins previously independent "
    "groups), or a simplify/split after one, or a branch with adds on both sides; distinct by SHA-1 of (frontend, history)."
)
ASSUMPTIONS = ["same latitude as C11 (DESIGN 3.2)", "brute-force reference exact within 17 variable bits"]
BUDGET_S = {"quick": 240, "thorough": 3000}
CONFIGS = [{"frontend": "SolverComposite"}, {"frontend": "SolverComposite-track"}, {"frontend": "SolverComposite", "reuse": True}]
GROUPS = ("core", "maint", "branch", "algebra")


def shards(tier, seed):
    return sp.shards_for(tier, seed, 1200, CONFIGS, 220, 5000, per_quick=5, per_thorough=6)


def nontrivial(res):
    s = res.stats
    return bool(s.get("bridging") or (s.get("branches") and s.get("adds", 0) >= 2) or s.get("algebra"))


def run_shard(shard, ctx):
    from hypothesis import strategies as st

    from .. import solver_machine as sm

    # every third shard runs the directed scenarios (exhaust two groups, then bridge them; extras must not stick)
    strategy = st.one_of(sm.scenario_exhaust_then_bridge(), sm.scenario_exhaust_then_bridge(), sm.scenario_extras_do_not_stick()) if shard["i"] % 3 == 2 else None
    sp.run_random(shard, ctx, GROUPS, nontrivial, strategy=strategy, extra=("scenario",) if strategy is not None else None)


replay = sp.replay
shrink = sp.shrink
KNOWN_PREDICATES = {}
