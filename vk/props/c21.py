"""C21 -- strided-interval transfer functions are sound."""

from __future__ import annotations

import itertools
import os

from hypothesis import strategies as st

from .. import hyp, ir, si_gamma as sg

ID = "C21"
LEVEL = "exploration"
RULE = (
    "Operands are canonical strided intervals (stride 0 iff singleton, stride divides the span, wrapping forms included): ALL of them at "
    "widths 1-3 (4 / 24 / 136 forms) and every PAIR for binary operations, at width 4 (736 forms) all unary/parametrised cases and a "
    "seed-selected third (quick) or all (thorough) of the 541 696 pairs per operation, plus Hypothesis-generated intervals at widths 8/16/32/64 "
    "(bounds biased to 0, max, the poles +-k; strides 1, 2, 3, 2^k, odd; small and huge cardinalities). Operations through the entry "
    "points BackendVSA uses: + - * // (unsigned) sdiv % unary- ~ & | ^ << >> (arithmetic) LShR with interval shift amounts, zero_extend, "
    "sign_extend, extract(hi,lo) for every legal pair, concat, == != ULT ULE UGT UGE SLT SLE SGT SGE. Oracle: for every x in gamma(a), "
    "y in gamma(b): op(x,y) (SMT-LIB semantics, independent evaluator) is a member of gamma(result) computed from (bits, stride, lb, ub) "
    "only; comparisons: every truth value that occurs is in the BoolResult; result width as specified. Exempt: pairs with divisor 0 "
    "(only those pairs), exceptions of division/remainder whose divisor interval contains 0. At wide widths members are sampled (both "
    "bounds, neighbours, random lattice points). Chains (widths 3 and 4): every first operation over the canonical operands; each distinct result that "
    "is NOT a canonical form (upper bound off the stride lattice, stride inconsistent with the bounds) is fed, as the object returned, to "
    "every unary / extension / extraction operation and to every binary operation and comparison against a fixed set of second operands on "
    "either side; the second result must contain op2 of every member of the intermediate (sdiv excluded on both positions: open finding). "
    "Non-trivial: neither operand is a singleton or TOP, or an operand wraps / straddles a "
    "pole; enumerated cases are distinct by construction and counted, generated ones by SHA-1."
)
ASSUMPTIONS = [
    "gamma(<n> s[lb,ub]) = {lb + k*s mod 2^n | 0 <= k <= ((ub-lb) mod 2^n) div s} (agrees with StridedInterval.eval on all canonical forms, checked by C22)",
    "operands of one operation have the same width (mixed widths are undocumented and not part of the oracle); operands carry distinct names",
]
BUDGET_S = {"quick": 230, "thorough": 3000}
GRACE_S = 90

M = lambda n: (1 << n) - 1  # noqa: E731


def _bin(irop):
    return lambda x, y, n: None if (irop in ir.DIV_OPS and y == 0) else ir.bv_binop(irop, x, y, n)


def _cmp(irop):
    return lambda x, y, n: ir.bv_cmp(irop, x, y, n)


BINARY = {
    "add": (lambda a, b: a + b, _bin("bvadd")),
    "sub": (lambda a, b: a - b, _bin("bvsub")),
    "mul": (lambda a, b: a * b, _bin("bvmul")),
    "udiv": (lambda a, b: a // b, _bin("bvudiv")),
    "sdiv": (lambda a, b: a.sdiv(b), _bin("bvsdiv")),
    "urem": (lambda a, b: a % b, _bin("bvurem")),
    "and": (lambda a, b: a & b, _bin("bvand")),
    "or": (lambda a, b: a | b, _bin("bvor")),
    "xor": (lambda a, b: a ^ b, _bin("bvxor")),
    "shl": (lambda a, b: a << b, _bin("bvshl")),
    "ashr": (lambda a, b: a >> b, _bin("bvashr")),
    "lshr": (lambda a, b: a.LShR(b), _bin("bvlshr")),
}
COMPARE = {
    "eq": (lambda a, b: a == b, _cmp("eq")),
    "ne": (lambda a, b: a != b, _cmp("ne")),
    "ULT": (lambda a, b: a.ULT(b), _cmp("ult")),
    "ULE": (lambda a, b: a.ULE(b), _cmp("ule")),
    "UGT": (lambda a, b: a.UGT(b), _cmp("ugt")),
    "UGE": (lambda a, b: a.UGE(b), _cmp("uge")),
    "SLT": (lambda a, b: a.SLT(b), _cmp("slt")),
    "SLE": (lambda a, b: a.SLE(b), _cmp("sle")),
    "SGT": (lambda a, b: a.SGT(b), _cmp("sgt")),
    "SGE": (lambda a, b: a.SGE(b), _cmp("sge")),
}
UNARY = {
    "neg": (lambda a: -a, lambda x, n: (-x) & M(n)),
    "not": (lambda a: ~a, lambda x, n: (~x) & M(n)),
}
DIVLIKE = ("udiv", "sdiv", "urem")
ALL_PAIR_OPS = (*BINARY, *COMPARE, "concat")


def _sext(x, n, k):
    return x | (M(k) << n) if x >> (n - 1) else x


def param_ops(n):
    """(name, param, fn(a) -> result, concrete(x) -> value, result width)"""
    out = []
    for k in sorted({1, 2, n}):
        out.append(("zero_extend", k, (lambda a, k=k: a.zero_extend(n + k)), (lambda x: x), n + k))
        out.append(("sign_extend", k, (lambda a, k=k: a.sign_extend(n + k)), (lambda x, k=k: _sext(x, n, k)), n + k))
    for hi in range(n):
        for lo in range(hi + 1):
            out.append(("extract", (hi, lo), (lambda a, hi=hi, lo=lo: a.extract(hi, lo)), (lambda x, hi=hi, lo=lo: (x >> lo) & M(hi - lo + 1)), hi - lo + 1))
    return out


# ------------------------------------------------------------------ single case (replay / random)


def _describe_result(r):
    from claripy.backends.backend_vsa.bool_result import BoolResult
    from claripy.backends.backend_vsa.strided_interval import StridedInterval

    if isinstance(r, StridedInterval):
        return sg.describe(r)
    if isinstance(r, BoolResult):
        return "bool" + "".join("T" if v else "F" for v in sorted(set(r.value), reverse=True))
    return f"other:{type(r).__name__}"


def finding_line(case, obs):
    return "|".join([case["op"], str(case.get("param")), str(case["bits"]), str(case["a"]), str(case.get("b")), obs.get("result", "?")])


def run_one(case, members_a=None, members_b=None):
    """-> (failure (fp, obs) or None, tags).  members_*: explicit concrete samples (wide widths); else all of gamma."""
    from claripy.backends.backend_vsa.bool_result import BoolResult
    from claripy.backends.backend_vsa.strided_interval import StridedInterval

    op, n = case["op"], case["bits"]
    a = sg.make(n, tuple(case["a"]) if case["a"] != "empty" else "empty")
    b = sg.make(n, tuple(case["b"]) if case.get("b") not in (None, "empty") else "empty") if case.get("b") is not None else None
    xs = members_a if members_a is not None else sg.members(sg.gamma_mask(a))
    ys = (members_b if members_b is not None else sg.members(sg.gamma_mask(b))) if b is not None else [None]
    if op in BINARY or op in COMPARE or op == "concat":
        if op == "concat":
            fn, conc, wres = (lambda p, q: p.concat(q)), (lambda x, y, n_: (x << n_) | y), 2 * n
        else:
            fn, conc = (BINARY.get(op) or COMPARE[op])
            wres = n
        call = lambda: fn(a, b)  # noqa: E731
        values = lambda: (conc(x, y, n) for x in xs for y in ys)  # noqa: E731
    elif op in UNARY:
        fn, conc1 = UNARY[op]
        wres = n
        call = lambda: fn(a)  # noqa: E731
        values = lambda: (conc1(x, n) for x in xs)  # noqa: E731
    else:
        spec = next(s for s in param_ops(n) if s[0] == op and (list(s[1]) if isinstance(s[1], tuple) else s[1]) == (list(case["param"]) if isinstance(case["param"], (list, tuple)) else case["param"]))
        _, _, fnp, concp, wres = spec
        call = lambda: fnp(a)  # noqa: E731
        values = lambda: (concp(x) for x in xs)  # noqa: E731
    try:
        r = call()
    except RecursionError:
        return (f"{op}:exception:RecursionError", {"result": "exc:RecursionError"}), ()
    except Exception as e:  # noqa: BLE001 - classified
        if op in DIVLIKE and b is not None and sg.contains(b, 0):
            return None, ("exempt-divisor-may-be-zero",)
        return (f"{op}:exception:{type(e).__name__}", {"result": f"exc:{type(e).__name__}", "exc": repr(e)[:160]}), ()
    res = _describe_result(r)
    if op in COMPARE:
        if not isinstance(r, BoolResult):
            return (f"{op}:wrong-result-type", {"result": res}), ()
        have = set(r.value)
        for v in values():
            if v not in have:
                return (f"{op}:wrong-truth-value", {"result": res, "missing": v}), ()
        return None, ()
    if not isinstance(r, StridedInterval):
        return (f"{op}:wrong-result-type", {"result": res}), ()
    if r.bits != wres:
        return (f"{op}:wrong-width", {"result": res, "expected_bits": wres}), ()
    if wres <= 10:
        got = sg.gamma_mask(r)
        for v in values():
            if v is not None and not (got >> v) & 1:
                return (f"{op}:missing-member", {"result": res, "missing": v}), ()
    else:
        for v in values():
            if v is not None and not sg.contains(r, v):
                return (f"{op}:missing-member", {"result": res, "missing": v}), ()
    return None, ()


def replay(case):
    if case.get("chain"):
        f = run_chain(case)
        return [f] if f else []
    f, _ = run_one(case, case.get("xs"), case.get("ys"))
    return [f] if f else []


# ------------------------------------------------------------------ shards


def shards(tier, seed):
    out = []
    for n in (1, 2, 3):
        out.append({"mode": "enum-pairs", "bits": n, "ops": list(ALL_PAIR_OPS), "part": 0, "parts": 1})
        out.append({"mode": "enum-unary", "bits": n})
    out.append({"mode": "enum-unary", "bits": 4})
    if tier == "quick":
        for i, op in enumerate(ALL_PAIR_OPS):
            out.append({"mode": "enum-pairs", "bits": 4, "ops": [op], "part": (seed * 7 + i) % 3, "parts": 3})
    else:
        for op in ALL_PAIR_OPS:
            for part in range(4):
                out.append({"mode": "enum-pairs", "bits": 4, "ops": [op], "part": part, "parts": 4})
    for i in range(8 if tier == "quick" else 16):
        out.append({"mode": "random", "i": i, "n": 700 if tier == "quick" else 40000, "hseed": seed * 1000 + 2100 + i})
    firsts = [o for o in (*BINARY, "concat", *UNARY, "zero_extend", "sign_extend", "extract") if o not in CHAIN_EXCLUDED]
    for bits in (3, 4):
        for o in firsts:
            out.append({"mode": "chain", "bits": bits, "op1": o, "cap": 40 if tier == "quick" else 400})
    return out


_DUMP = os.environ.get("VK_DUMP_FAIL_LINES")


def _dump(line):
    if _DUMP:
        with open(f"{_DUMP}.{os.getpid()}", "a") as f:
            f.write(line + "\n")


def _nontrivial_tag(n, t):
    c = sg.classify(n, t)
    return c not in ("singleton", "top", "empty"), c


def _enum_pairs(shard, ctx):
    n = shard["bits"]
    forms = sg.canonical(n)
    objs = [sg.make(n, t) for t in forms]
    objs_b = [sg.make(n, t) for t in forms]  # second operands are separate objects: equal names mean "the same variable" to eq()
    mems = [sg.members(sg.gamma_mask(o)) for o in objs]
    ntags = [_nontrivial_tag(n, t) for t in forms]
    pairs_total = 0
    nontriv_total = 0
    for op in shard["ops"]:
        if op == "concat":
            fn, conc, wres = (lambda p, q: p.concat(q)), (lambda x, y, n_: (x << n_) | y), 2 * n
        else:
            fn, conc = BINARY.get(op) or COMPARE[op]
            wres = n
        is_cmp = op in COMPARE
        # R[x][j]: mask of results of x op y over y in gamma(forms[j])
        R = []
        for x in range(1 << n):
            row = []
            for j in range(len(forms)):
                m = 0
                for y in mems[j]:
                    v = conc(x, y, n)
                    if v is None:
                        continue
                    m |= 1 << (int(v))
                row.append(m)
            R.append(row)
        k = -1
        for i in range(len(forms)):
            if ctx.out_of_time():
                return pairs_total, nontriv_total, False
            for j in range(len(forms)):
                k += 1
                if k % shard["parts"] != shard["part"]:
                    continue
                pairs_total += 1
                nt = ntags[i][0] and ntags[j][0]
                nontriv_total += nt
                want = 0
                for x in mems[i]:
                    want |= R[x][j]
                fail = None
                try:
                    r = fn(objs[i], objs_b[j])
                except RecursionError:
                    fail = (f"{op}:exception:RecursionError", {"result": "exc:RecursionError"})
                    r = None
                except Exception as e:  # noqa: BLE001
                    if op in DIVLIKE and 0 in mems[j]:
                        ctx.count("exempt-divisor-may-be-zero")
                        continue
                    fail = (f"{op}:exception:{type(e).__name__}", {"result": f"exc:{type(e).__name__}", "exc": repr(e)[:160]})
                    r = None
                if fail is None:
                    if is_cmp:
                        have = 0
                        try:
                            for v in r.value:
                                have |= 1 << int(bool(v))
                        except Exception:  # noqa: BLE001
                            fail = (f"{op}:wrong-result-type", {"result": _describe_result(r)})
                        if fail is None and want & ~have:
                            fail = (f"{op}:wrong-truth-value", {"result": _describe_result(r), "missing": bool(sg.members(want & ~have)[0])})
                    else:
                        try:
                            if r.bits != wres:
                                fail = (f"{op}:wrong-width", {"result": _describe_result(r), "expected_bits": wres})
                            else:
                                got = sg.gamma_mask(r)
                                if want & ~got:
                                    fail = (f"{op}:missing-member", {"result": _describe_result(r), "missing": sg.members(want & ~got)[0]})
                        except AttributeError:
                            fail = (f"{op}:wrong-result-type", {"result": _describe_result(r)})
                if fail is not None:
                    case = {"op": op, "bits": n, "a": list(forms[i]), "b": list(forms[j]), "param": None}
                    _dump(fail[0] + "\t" + finding_line(case, fail[1]))
                    ctx.fail(fail[0], case, fail[1])
                    ctx.count("failing_cases:" + op)
        ctx.classes[f"op:{op}"] += 0
    return pairs_total, nontriv_total, True


def _enum_unary(shard, ctx):
    n = shard["bits"]
    forms = sg.canonical(n)
    total = nt_total = 0
    specs = [(name, None, fn, (lambda x, c=conc: c(x, n)), n) for name, (fn, conc) in UNARY.items()] + param_ops(n)
    for t in forms:
        a = sg.make(n, t)
        nt = _nontrivial_tag(n, t)[0]
        for name, param, _fn, _conc, _w in specs:
            total += 1
            nt_total += nt
            case = {"op": name, "bits": n, "a": list(t), "b": None, "param": list(param) if isinstance(param, tuple) else param}
            f, _ = run_one(case)
            if f is not None:
                _dump(f[0] + "\t" + finding_line(case, f[1]))
                ctx.fail(f[0], case, f[1])
                ctx.count("failing_cases:" + name)
    return total, nt_total


# ------------------------------------------------------------------ chains: an operation applied to what another one returned

CHAIN_EXCLUDED = ("sdiv",)  # the open finding: its wrong results would resurface through every second operation
_SECOND_OPERANDS = {}


def _second_operands(n):
    """A small fixed set of canonical second operands for the second operation of a chain."""
    if n not in _SECOND_OPERANDS:
        mod = 1 << n
        ts = {(0, 0, 0), (0, 1, 1), (0, mod - 1, mod - 1), (0, mod >> 1, mod >> 1), (1, 0, mod - 1), (1, 1, 2 % mod), (1, mod - 2, 1 % mod), (2, 0, mod - 2), (2, 1, mod - 1)}
        if n >= 3:
            ts |= {(3, 1, 7), (4, 1, 5), (1, (mod >> 1) - 1, mod >> 1)}
        canon = set(sg.canonical(n)) if n <= 4 else None
        _SECOND_OPERANDS[n] = sorted(t for t in ts if canon is None or t in canon)
    return _SECOND_OPERANDS[n]


def _first_step(case):
    """-> the StridedInterval the first operation of a chain case returns (the object itself, nothing normalised)."""
    n = case["bits"]
    a = sg.make(n, tuple(case["a"]))
    op1 = case["op1"]
    if op1 in BINARY or op1 == "concat":
        b = sg.make(n, tuple(case["b"]))
        return (lambda p, q: p.concat(q))(a, b) if op1 == "concat" else BINARY[op1][0](a, b)
    if op1 in UNARY:
        return UNARY[op1][0](a)
    p1 = case["param1"]
    spec = next(s_ for s_ in param_ops(n) if s_[0] == op1 and (list(s_[1]) if isinstance(s_[1], tuple) else s_[1]) == (list(p1) if isinstance(p1, (list, tuple)) else p1))
    return spec[2](a)


def _is_canonical(r):
    if r.is_empty:
        return True
    mod = 1 << r.bits
    d = (r.upper_bound - r.lower_bound) % mod
    if r.stride == 0:
        return d == 0
    return d != 0 and d % r.stride == 0


def run_chain(case):
    """-> failure (fp, obs) or None.  The second operation must be sound for the members of what the first one returned."""
    from claripy.backends.backend_vsa.bool_result import BoolResult
    from claripy.backends.backend_vsa.strided_interval import StridedInterval

    try:
        r = _first_step(case)
    except Exception:  # noqa: BLE001 - the first step alone is the single-operation check's business
        return None
    if not isinstance(r, StridedInterval) or r.bits > 10:
        return None
    n = r.bits
    xs = sg.members(sg.gamma_mask(r))
    op2 = case["op2"]
    mid = sg.describe(r)
    fpx = f"chain:{case['op1']}>{op2}"
    if op2 in BINARY or op2 in COMPARE:
        z = sg.make(n, tuple(case["z"]))
        zs = sg.members(sg.gamma_mask(z))
        fn, conc = BINARY.get(op2) or COMPARE[op2]
        left = case.get("side", "l") == "l"
        call = (lambda: fn(r, z)) if left else (lambda: fn(z, r))
        values = [conc(x, y, n) if left else conc(y, x, n) for x in xs for y in zs]
        wres = n
    elif op2 in UNARY:
        fn1, conc1 = UNARY[op2]
        call = lambda: fn1(r)  # noqa: E731
        values = [conc1(x, n) for x in xs]
        wres = n
    else:
        p2 = case["param2"]
        spec = next(s_ for s_ in param_ops(n) if s_[0] == op2 and (list(s_[1]) if isinstance(s_[1], tuple) else s_[1]) == (list(p2) if isinstance(p2, (list, tuple)) else p2))
        call = lambda: spec[2](r)  # noqa: E731
        values = [spec[3](x) for x in xs]
        wres = spec[4]
    try:
        r2 = call()
    except Exception as e:  # noqa: BLE001
        if op2 in DIVLIKE and (0 in xs or ("z" in case and 0 in sg.members(sg.gamma_mask(sg.make(n, tuple(case["z"])))))):
            return None
        return (f"{fpx}:exception:{type(e).__name__}", {"intermediate": mid, "result": f"exc:{type(e).__name__}", "exc": repr(e)[:160]})
    res = _describe_result(r2)
    if op2 in COMPARE:
        if not isinstance(r2, BoolResult):
            return (f"{fpx}:wrong-result-type", {"intermediate": mid, "result": res})
        have = set(r2.value)
        for v in values:
            if v not in have:
                return (f"{fpx}:wrong-truth-value", {"intermediate": mid, "result": res, "missing": v})
        return None
    if not isinstance(r2, StridedInterval):
        return (f"{fpx}:wrong-result-type", {"intermediate": mid, "result": res})
    if r2.bits != wres:
        return (f"{fpx}:wrong-width", {"intermediate": mid, "result": res, "expected_bits": wres})
    got = sg.gamma_mask(r2) if wres <= 12 else None
    for v in values:
        if v is None:
            continue
        if (got is not None and not (got >> v) & 1) or (got is None and not sg.contains(r2, v)):
            return (f"{fpx}:missing-member", {"intermediate": mid, "result": res, "missing": v})
    return None


def _chain_shard(shard, ctx):
    """First operations over canonical operands; every distinct result that is NOT a canonical form (upper bound off the stride
    lattice, stride inconsistent with the bounds) goes through every unary / parametrised operation and through every binary
    operation and comparison against a fixed set of second operands, on either side."""
    n = shard["bits"]
    op1 = shard["op1"]
    forms = sg.canonical(n)
    seen = {}
    firsts = []
    if op1 in BINARY or op1 == "concat":
        step = 1 if n <= 3 else 7
        k = 0
        for ta in forms:
            for tb in forms:
                k += 1
                if k % step:
                    continue
                firsts.append({"op1": op1, "bits": n, "a": list(ta), "b": list(tb)})
    elif op1 in UNARY:
        firsts = [{"op1": op1, "bits": n, "a": list(ta)} for ta in forms]
    else:
        firsts = [{"op1": op1, "bits": n, "a": list(ta), "param1": list(p) if isinstance(p, tuple) else p} for ta in forms for nm, p, *_ in param_ops(n) if nm == op1]
    n_first = 0
    for c1 in firsts:
        if ctx.out_of_time():
            return
        try:
            r = _first_step(c1)
        except Exception:  # noqa: BLE001
            continue
        n_first += 1
        if not hasattr(r, "lower_bound") or r.bits > 8 or _is_canonical(r):
            continue
        key = (r.bits, r.stride, r.lower_bound, r.upper_bound)
        if key not in seen and len(seen) < shard["cap"]:
            seen[key] = c1
    ctx.count("chain_first_results", n_first)
    ctx.count("chain_noncanonical_intermediates", len(seen))
    for key, c1 in seen.items():
        w = key[0]
        seconds = [{"op2": nm} for nm in UNARY] + [{"op2": nm, "param2": list(p) if isinstance(p, tuple) else p} for nm, p, *_ in param_ops(w)]
        for nm in (*BINARY, *COMPARE):
            if nm in CHAIN_EXCLUDED:
                continue
            for z in _second_operands(w):
                seconds.append({"op2": nm, "z": list(z), "side": "l"})
                seconds.append({"op2": nm, "z": list(z), "side": "r"})
        for c2 in seconds:
            if ctx.out_of_time():
                return
            case = {"chain": True, **c1, **c2}
            f = run_chain(case)
            ctx.case(case, True, ["mode:chain", f"op1:{op1}", f"op2:{c2['op2']}"], sample={"first": c1, "intermediate": f"<{key[0]}>{key[1]}[{key[2]},{key[3]}]", "second": c2})
            if f is not None:
                ctx.fail(f[0], case, f[1])


@st.composite
def wide_si(draw, n):
    mod = 1 << n
    anchors = [0, 1, mod - 1, mod - 2, mod >> 1, (mod >> 1) - 1, (mod >> 1) + 1, 3, 0x7F & (mod - 1), 0x80 & (mod - 1), 0xFF & (mod - 1)]
    k = draw(st.integers(0, 9))
    lb = (draw(st.sampled_from(anchors)) + draw(st.integers(-3, 3))) % mod if k < 7 else draw(st.integers(0, mod - 1))
    if k == 0:
        return (0, lb, lb)
    stride = draw(st.sampled_from((1, 1, 2, 3, 4, 5, 7, 8, 16, 1 << (n // 2), (1 << (n - 1)) - 1, 6, 12)))
    stride = max(1, stride % mod)
    if draw(st.integers(0, 9)) < 7:
        count = draw(st.integers(1, 12))
    else:
        # huge cardinalities on purpose (Hypothesis' integers() over a huge range mostly yields small numbers): the full circle,
        # fractions of it, the neighbourhood of 2^53 (where a double stops counting), and a uniformly chosen bit length
        maxc = max(1, (mod - 1) // stride)
        base = draw(st.sampled_from((maxc, maxc // 2, maxc // 3, (1 << 53) // stride, (1 << 24) // stride, 1 << draw(st.integers(0, n)))))
        count = max(1, min(maxc, base + draw(st.integers(-3, 3))))
    count = min(count, (mod - 1) // stride)
    if count == 0:
        return (0, lb, lb)
    ub = (lb + count * stride) % mod
    return (stride, lb, ub)


def _sample_members(draw, n, t):
    s, lb, ub = t
    mod = 1 << n
    if s == 0:
        return [lb]
    cnt = ((ub - lb) % mod) // s
    ks = {0, cnt, min(1, cnt), max(cnt - 1, 0), cnt // 2}
    # members next to the poles
    for target in (0, mod - 1, mod >> 1, (mod >> 1) - 1):
        k0 = ((target - lb) % mod) // s
        for k in (k0 - 1, k0, k0 + 1):
            if 0 <= k <= cnt:
                ks.add(k)
    for _ in range(3):
        ks.add(draw(st.integers(0, cnt)))
    return sorted({(lb + k * s) % mod for k in ks})


@st.composite
def wide_case(draw):
    n = draw(st.sampled_from((8, 8, 16, 32, 64)))
    kind = draw(st.integers(0, 9))
    a = draw(wide_si(n))
    xs = _sample_members(draw, n, a)
    if kind <= 6:
        op = draw(st.sampled_from(ALL_PAIR_OPS))
        if op in ("shl", "ashr", "lshr") and draw(st.booleans()):
            b = (0, draw(st.integers(0, n + 1)), 0)
            b = (0, b[1], b[1])
        else:
            b = draw(wide_si(n))
        ys = _sample_members(draw, n, b)
        return {"op": op, "bits": n, "a": list(a), "b": list(b), "param": None, "xs": xs, "ys": ys}
    if kind == 7:
        return {"op": draw(st.sampled_from(tuple(UNARY))), "bits": n, "a": list(a), "b": None, "param": None, "xs": xs}
    if kind == 8:
        hi = draw(st.integers(0, n - 1))
        lo = draw(st.integers(0, hi))
        return {"op": "extract", "bits": n, "a": list(a), "b": None, "param": [hi, lo], "xs": xs}
    return {"op": draw(st.sampled_from(("zero_extend", "sign_extend"))), "bits": n, "a": list(a), "b": None, "param": draw(st.sampled_from((1, 2, n))), "xs": xs}


def run_shard(shard, ctx):
    mode = shard["mode"]
    if mode == "enum-pairs":
        total, nt, complete = _enum_pairs(shard, ctx)
        ctx.evaluations += total
        ctx.extra["enumerated_distinct_nontrivial"] = nt
        ctx.extra[f"enumerated_pairs_w{shard['bits']}"] = total
        for op in shard["ops"]:
            ctx.classes[f"op:{op}"] += total // max(1, len(shard["ops"]))
        ctx.classes[f"width:{shard['bits']}"] += total
        if ctx.tier == "thorough" or shard["bits"] <= 3:
            ctx.extra["exhaustive"] = True
            ctx.extra["exhaustive_subdomain"] = ("every pair of canonical strided intervals of width 1-3 (quick) / 1-4 (thorough) for every binary operation and comparison, "
                                                 "every canonical interval of width 1-4 for every unary / extension / extraction operation")
        if len(ctx.samples) < 2:
            forms = sg.canonical(shard["bits"])
            ctx.samples.append({"op": shard["ops"][0], "bits": shard["bits"], "a": list(forms[len(forms) // 3]), "b": list(forms[len(forms) // 2])})
        return
    if mode == "chain":
        _chain_shard(shard, ctx)
        return
    if mode == "enum-unary":
        total, nt = _enum_unary(shard, ctx)
        ctx.evaluations += total
        ctx.extra["enumerated_distinct_nontrivial"] = nt
        ctx.extra[f"enumerated_unary_w{shard['bits']}"] = total
        ctx.classes[f"width:{shard['bits']}"] += total
        return

    # wide random
    findings = ctx.known.entries
    excluded_ops = set()
    for e in findings:
        excluded_ops.update(e.get("match", {}).get("exclude_ops_wide", []))

    def body(case):
        if case["op"] in excluded_ops:
            ctx.count("excluded_known_wide:" + case["op"])
            return
        f, tags = run_one(case, case.get("xs"), case.get("ys"))
        for t in tags:
            ctx.count(t)
        nt = _nontrivial_tag(case["bits"], tuple(case["a"]))[0] and (case["b"] is None or _nontrivial_tag(case["bits"], tuple(case["b"]))[0])
        ctx.case({k: v for k, v in case.items() if k not in ("xs", "ys")}, nt, [f"op:{case['op']}", f"width:{case['bits']}", "wide"],
                 sample={k: v for k, v in case.items() if k not in ("xs", "ys")})
        if f is not None:
            ctx.fail(f[0] + ":wide", case, f[1])

    hyp.run(wide_case(), shard["n"], shard["hseed"], body, ctx)


def shrink(case, obs, fp, matcher, deadline):
    return case, obs


def _pred_sdiv_floor_rounding(case, obs):
    """The open finding: StridedInterval.sdiv bounds the quotient with Python's floor division where bvsdiv truncates.  A failure
    is that finding iff it is a plain sdiv case and EVERY concrete quotient missing from the observed result comes from a pair whose
    floor and truncated quotients differ (operands of different sign, remainder not zero).  The result itself is not part of the
    identification: it depends on the iteration order of a set inside the division and so on the hash seed."""
    import re

    if case.get("chain") or case.get("op") != "sdiv" or case.get("b") in (None, "empty") or case.get("a") == "empty":
        return False
    n = case["bits"]
    m = re.fullmatch(r"<(\d+)>(\d+)\[(\d+),(\d+)\](R?)", obs.get("result", ""))
    if m:
        if int(m.group(1)) != n or m.group(5):
            return False
        got = sg.mask_of(n, int(m.group(2)), int(m.group(3)), int(m.group(4)))
    elif obs.get("result") == f"<{n}>empty":
        got = 0
    else:
        return False
    xs = case.get("xs") or sg.members(sg.gamma_mask(sg.make(n, tuple(case["a"]))))
    ys = case.get("ys") or sg.members(sg.gamma_mask(sg.make(n, tuple(case["b"]))))
    sgn = lambda v: v - (1 << n) if v >> (n - 1) else v  # noqa: E731
    missing_any = False
    for x in xs:
        for y in ys:
            if y == 0:
                continue
            q = ir.bv_binop("bvsdiv", x, y, n)
            if (got >> q) & 1:
                continue
            missing_any = True
            sx, sy = sgn(x), sgn(y)
            if not (sx % sy != 0 and (sx < 0) != (sy < 0)):
                return False  # a quotient that floor rounding does not explain is missing: something else
    return missing_any


KNOWN_PREDICATES = {"sdiv_floor_rounding": _pred_sdiv_floor_rounding}
