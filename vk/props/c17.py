"""C17 -- a solver stays correct after a backend timeout or interrupt."""

from __future__ import annotations

from hypothesis import strategies as st

from .. import exprcheck, faults, hyp, solver_machine as sm
from . import _solverprop as sp

ID = "C17"
LEVEL = "fault_enumeration"
RULE = (
    "Histories from the C11/C12 generators (<=10 operations in the enumerated part) on Solver, SolverCacheless, SolverComposite and "
    "SolverHybrid. A counting pass learns how many backend solver checks every operation performs (z3.Solver.check is wrapped from "
    "outside claripy). Then for EVERY operation and EVERY check index inside it the history is re-run from scratch with a failure "
    "injected at exactly that call: kind A returns 'unknown' without running the real check, kind B runs it and then reports unknown, kind C raises z3.Z3Exception "
    "('reached max unfolding' / 'out of memory' / 'canceled') as Z3's sequence solver and memory limit do, "
    "with reason_unknown() answering timeout / max. resource limit exceeded / canceled (kind x reason rotates over positions in the "
    "quick tier, full product in the thorough tier). Oracle: the faulted operation must raise a ClaripyError that is not an UnsatError "
    "(returning an answer is a violation); every later answer, including from branches taken afterwards, is checked against the "
    "brute-force model set as if the faulted operation had never been issued. Non-trivial: the fault lands in a multi-check operation "
    "(eval n>1, min/max, composite queries) and a later query follows; distinct by SHA-1 of (frontend, history, step, check index, kind, reason)."
)
ASSUMPTIONS = ["the injected 'unknown' at the z3.Solver.check boundary models a backend timeout / resource limit / interrupt",
               "a faulted query leaves the reference model set unchanged (queries do not constrain)"]
BUDGET_S = {"quick": 280, "thorough": 3000}
N = {"quick": 24, "thorough": 400}
CONFIGS = [{"frontend": f} for f in ("Solver", "SolverCacheless", "SolverComposite", "SolverHybrid")]
GROUPS = ("core", "branch")


def shards(tier, seed):
    return sp.shards_for(tier, seed, 1700, CONFIGS, N["quick"], N["thorough"], per_quick=4, per_thorough=4)


def run_with_fault(frontend, history, fault):
    """fault = None (counting pass) or (step, k, kind, reason)."""
    faults.install()
    faults.reset()
    m = sm.Machine(frontend)
    m.faults = True
    if fault is not None:
        step_i, k, kind, reason = fault
        m.fault_plan = fault
    orig_step = m.step

    def step(i, st_):
        if fault is not None and i == fault[0] and not faults.S.fired:
            faults.arm(faults.S.count + fault[1], fault[2], fault[3])
        orig_step(i, st_)

    m.step = step
    try:
        res = m.run(history)
    finally:
        faults.reset()
    return m, res


def check_history(frontend, history, tier, ctx=None):
    """-> list of (fp, obs, fault) ; yields evaluation records through ctx"""
    out = []
    m0, res0 = run_with_fault(frontend, history, None)
    if res0.fails:
        # the history itself fails without any fault: that is C11/C12/C13's finding
        return [("attributed", res0.fails[0][0])], 0, 0
    positions = [(i, k) for i in sorted(m0.checks_per_step) for k in range(1, m0.checks_per_step[i] + 1)]
    runs = 0
    nontrivial = 0
    combos = [(kd, rs) for kd in faults.KINDS for rs in faults.REASONS]
    for n, (i, k) in enumerate(positions):
        chosen = combos if tier == "thorough" else [combos[n % len(combos)]]
        for kind, reason in chosen:
            if ctx is not None and ctx.out_of_time():
                return out, runs, nontrivial
            exprcheck.reset_caches()
            m, res = run_with_fault(frontend, history, (i, k, kind, reason))
            runs += 1
            multi = m0.checks_per_step[i] > 1
            later_query = any(s_["op"] not in ("add", "branch", "simplify", "downsize", "z3downsize", "finalize") for s_ in history[i + 1 :])
            nt = multi and later_query
            nontrivial += nt
            if ctx is not None:
                ctx.case({"frontend": frontend, "history": history, "fault": [i, k, kind, reason]}, nt,
                         [f"frontend:{frontend}", f"kind:{kind}", f"reason:{reason}", f"op:{history[i]['op']}", "fired" if m.fault_step is not None else "not-fired"],
                         sample={"frontend": frontend, "fault": {"step": i, "op": history[i]["op"], "check_index": k, "of": m0.checks_per_step[i], "kind": kind, "reason": reason}, "history": history[:8]})
            for fp, obs in res.fails[:1]:
                out.append((fp, {**obs, "fault": {"step": i, "check_index": k, "kind": kind, "reason": reason}}, [i, k, kind, reason]))
    return out, runs, nontrivial


def replay(case):
    m, res = run_with_fault(case["frontend"], case["history"], tuple(case["fault"]) if case.get("fault") else None)
    outd = {}
    for fp, obs in res.fails:
        outd.setdefault(fp, obs)
    return list(outd.items())


@st.composite
def fault_scenarios(draw):
    """Histories shaped so that a fault has something to corrupt and something to reveal it afterwards:
    constraint groups over separate variables (so a composite has several children, some of them unsatisfiable only by
    solving), a few probe queries (each of whose checks gets faulted in turn), optionally a branch taken right after,
    and then the same probes plus sat / min / max / eval on every focus variable, on the solver and on the branch."""
    names = list(draw(st.permutations(sm.BVVARS)))[: draw(st.integers(1, 3))]
    out = []
    contra = [lambda x: [("ult", x, sm._c(3)), ("ugt", x, sm._c(5))],
              lambda x: [("eq", ("bvmul", x, sm._c(2)), sm._c(3))],
              lambda x: [("eq", x, sm._c(1)), ("eq", x, sm._c(2))],
              lambda x: [("eq", ("bvand", x, sm._c(12)), sm._c(3))]]
    n_unsat = 0
    for nm in names:
        x = sm._v(nm)
        k = draw(st.integers(0, 9))
        if k < 3 and n_unsat == 0 and len(names) > 1:
            n_unsat += 1
            for c in draw(st.sampled_from(contra))(x):
                out.append({"op": "add", "s": 0, "cs": [c], "as_list": draw(st.booleans())})
        elif k < 8:
            for _ in range(draw(st.integers(1, 2))):
                out.append({"op": "add", "s": 0, "cs": [draw(sm.constraints((nm,)))], "as_list": draw(st.booleans())})
    if draw(st.integers(0, 3)) == 0 and len(names) > 1:
        out.append({"op": "add", "s": 0, "cs": [draw(sm.constraints(tuple(names[:2])))], "as_list": False})
    out = list(draw(st.permutations(out)))
    probes = []
    for _ in range(draw(st.integers(1, 2))):
        q = draw(sm.steps(("core",), tuple(names)).filter(lambda s_: s_["op"] != "add"))
        if "e" in q and q["op"] not in ("is_true", "is_false") and draw(st.booleans()):
            q = {**q, "e": sm._v(draw(st.sampled_from(names)))}
        if draw(st.integers(0, 2)):
            q = {**q, "extra": []}
        probes.append({**q, "s": 0})
    out += probes
    branched = draw(st.booleans())
    if branched:
        out.append({"op": "branch", "s": 0})
    targets = [0, -1] if branched else [0]
    for t in targets:
        after = [{"op": "sat", "s": t, "extra": []}]
        for q in probes:
            after.append({**q, "s": t})
        for nm in names:
            x = sm._v(nm)
            after.append({"op": draw(st.sampled_from(("max", "min"))), "s": t, "e": x, "signed": draw(st.booleans()), "extra": []})
            if draw(st.booleans()):
                after.append({"op": "eval", "s": t, "e": x, "n": draw(st.sampled_from((2, 17))), "extra": []})
        after.append({"op": "sat", "s": t, "extra": []})
        out += after
    return out


def run_shard(shard, ctx):
    fe = shard["frontend"]

    def body(hist):
        fails, runs, _nt = check_history(fe, hist, ctx.tier, ctx)
        ctx.count("faulted_runs", runs)
        ctx.count("histories", 1)
        seen = set()
        for f in fails:
            if f[0] == "attributed":
                ctx.count("attributed_elsewhere:" + f[1])
                continue
            fp, obs, fault = f
            if fp in seen:
                continue
            seen.add(fp)
            ctx.fail(fp, {"frontend": fe, "history": hist, "fault": fault}, obs)

    strat = sm.histories(GROUPS, max_steps=10) if shard["i"] % 2 == 0 else fault_scenarios()
    hyp.run(strat, shard["n"], shard["hseed"], body, ctx)
    ctx.extra["exhaustive"] = False
    ctx.extra["positions_enumerated_per_history"] = "every (operation, check index) pair of every generated history"


def shrink(case, obs, fp, matcher, deadline):
    from .. import shrink as shrinker

    fault = case["fault"]
    target = case["history"][fault[0]]

    def still(h):
        # keep the faulted step; recompute its index
        if target not in h:
            return None
        i = h.index(target)
        m, res = run_with_fault(case["frontend"], h, (i, fault[1], fault[2], fault[3]))
        for f, o in res.fails:
            if f == fp:
                return o
        return None

    h, o = shrinker.ddmin_list(list(case["history"]), still, deadline)
    i = h.index(target) if target in h else fault[0]
    return {**case, "history": h, "fault": [i, fault[1], fault[2], fault[3]]}, (o if o is not None else obs)


KNOWN_PREDICATES = {}
