"""C14 -- branches of a solver are isolated from each other."""

from __future__ import annotations

from .. import exprcheck, hyp, solver_machine as sm
from . import _solverprop as sp

ID = "C14"
LEVEL = "exploration"
RULE = (
    "Interleaved histories on a tree of up to 8 live solvers with branch weighted up (nested branches; query parent, add to child, "
    "re-query parent with the same query; simplify/downsize on one side; eval(n>1) on one side), for every exact frontend class "
    "(Solver, SolverCacheless, SolverComposite, SolverReplacement, SolverHybrid), solver reuse off and on. A third of the cases are directed (single-group and spanning queries on the parent, branch, "
    "narrowing / bridging / contradicting adds on one side with another branch over a still pending add, then the same queries on every "
    "side in a generated order). Each live solver has its own "
    "brute-force model set, copied at branch time. A wrong answer triggers an *isolated replay*: the failing solver's own line of "
    "operations is re-run on a fresh solver with every operation on other solvers removed (the branch() calls on its path are kept); "
    "fails there too => attributed to C11/C12/C13 (counted, not reported here); passes there => another solver's operation changed "
    "this solver's answer => C14 violation, ddmin-reduced over the other solvers' operations. Non-trivial: >=1 operation on one side of "
    "a branch between two operations on the other side; distinct by SHA-1 of (frontend, history)."
)
ASSUMPTIONS = ["isolation is judged by differential replay, so a defect that needs branching AND is deterministic on the linear path is attributed elsewhere"]
BUDGET_S = {"quick": 240, "thorough": 3000}
CONFIGS = [{"frontend": f, "reuse": r} for f in ("Solver", "SolverCacheless", "SolverComposite", "SolverReplacement", "SolverHybrid") for r in (False, True)]
GROUPS = ("core", "maint", "branch", "branch-heavy")


def shards(tier, seed):
    return sp.shards_for(tier, seed, 1400, CONFIGS, 350, 4000, per_quick=2, per_thorough=3)


def _lineage(history, frontend, reuse):
    """Replays the history keeping track, per live solver index, of which steps touched which solver and of parents."""
    live_parent = [None]
    touched = [[]]  # per live solver: indices of steps acting on it
    created_at = [None]
    for i, st in enumerate(history):
        s = st.get("s", 0) % len(live_parent)
        if st["op"] == "branch":
            if len(live_parent) < sm.Machine.MAX_LIVE:
                live_parent.append(s)
                touched.append([])
                created_at.append(i)
            touched[s].append(i)
        elif st["op"] == "pickle" and st.get("keep_original"):
            if len(live_parent) < sm.Machine.MAX_LIVE:
                live_parent.append(s)
                touched.append([])
                created_at.append(i)
            touched[s].append(i)
        else:
            touched[s].append(i)
    return live_parent, touched, created_at


def isolated_history(history, fail_step):
    """The sub-history consisting of the operations on the failing solver's ancestor line only."""
    live_parent, touched, created_at = _lineage(history[: fail_step + 1], None, None)
    target = history[fail_step].get("s", 0) % len(live_parent)
    line = []
    cur = target
    cut = fail_step
    while cur is not None:
        line.append((cur, cut))
        cut = created_at[cur] if created_at[cur] is not None else -1
        cur = live_parent[cur]
    keep = set()
    for sidx, upto in line:
        for i in touched[sidx]:
            if i <= upto:
                keep.add(i)
    # re-index: solvers on the line get indices 0..k in creation order
    order = sorted((created_at[s] if created_at[s] is not None else -1, s) for s, _ in line)
    remap = {s: k for k, (_, s) in enumerate(order)}
    out = []
    live_count = 1
    for i in sorted(keep):
        st = dict(history[i])
        s = st.get("s", 0) % _live_count_at(history, i)
        if st["op"] == "branch":
            # keep only branches that create a solver on the line
            creates_line = any(created_at[x] == i for x, _ in line)
            if not creates_line:
                continue
        st["s"] = remap.get(s, 0)
        out.append(st)
    return out


def _live_count_at(history, i):
    lp, _, _ = _lineage(history[:i], None, None)
    return len(lp)


def check_history(frontend, reuse, hist):
    res = sm.Machine(frontend, reuse=reuse).run(hist)
    if not res.fails:
        return res, []
    fp, obs = res.fails[0]
    iso = isolated_history(hist, obs["step"])
    res2 = sm.Machine(frontend, reuse=reuse).run(iso)
    if any(f == fp for f, _ in res2.fails):
        return res, [("attributed", fp)]
    return res, [("leak", "leak:" + fp, {**obs, "isolated_history_passes": True, "isolated_len": len(iso)})]


def interleaved(hist):
    lp, touched, created = _lineage(hist, None, None)
    if len(lp) < 2:
        return False
    owner = {}
    for s, lst in enumerate(touched):
        for i in lst:
            owner[i] = s
    seq = [owner[i] for i in sorted(owner)]
    # a-b-a pattern
    for i in range(len(seq) - 2):
        if seq[i] != seq[i + 1] and seq[i] in seq[i + 2 :]:
            return True
    return False


def run_shard(shard, ctx):
    fe, reuse = shard["frontend"], shard.get("reuse", False)

    def body(hist):
        exprcheck.reset_caches()
        res, verdict = check_history(fe, reuse, hist)
        case = {"frontend": fe, "reuse": reuse, "history": hist}
        ctx.case(case, interleaved(hist), [f"frontend:{fe}", f"reuse:{reuse}", *sp.stats_classes(res)], sample={"frontend": fe, "history": hist[:10], "n_steps": len(hist)})
        ctx.count("steps", res.steps_run)
        for v in verdict:
            if v[0] == "attributed":
                ctx.count("attributed_elsewhere:" + ":".join(v[1].split(":")[1:]))
            else:
                ctx.fail(v[1], case, v[2])

    n_dir = shard["n"] // 3
    hyp.run(sm.histories(GROUPS, max_steps=40), shard["n"] - n_dir, shard["hseed"], body, ctx)
    # directed: fill what branches share (backend solver, model caches, a composite's children and cached combinations), branch,
    # change one side -- also branching again over a pending add --, ask every side the same queries in a generated order
    hyp.run(sm.scenario_branch_isolation(), n_dir, shard["hseed"] + 7, body, ctx)


def replay(case):
    _, verdict = check_history(case["frontend"], case.get("reuse", False), case["history"])
    return [(v[1], v[2]) for v in verdict if v[0] == "leak"]


def shrink(case, obs, fp, matcher, deadline):
    from .. import shrink as shrinker

    def still(h):
        _, verdict = check_history(case["frontend"], case.get("reuse", False), h)
        for v in verdict:
            if v[0] == "leak" and v[1] == fp:
                return v[2]
        return None

    h, o = shrinker.ddmin_list(list(case["history"]), still, deadline)
    return {**case, "history": h}, (o if o is not None else obs)


KNOWN_PREDICATES = {}
