"""C01 -- bitvector / Boolean expressions mean exactly what the written operations say."""

from __future__ import annotations

import itertools
import time

from hypothesis import strategies as st

from .. import exprcheck, gen, hyp, ir, sem_z3, shrink as shrinker

ID = "C01"
LEVEL = "exploration"
RULE = (
    "Cases are typed BV/Bool operation trees (random grammar, rewrite-shaped templates, fully concrete trees, and a "
    "bounded enumeration of two-operator shapes at width<=3) built through claripy's public API in a generated spelling; "
    "oracle = independent evaluator over all assignments (<=10 variable bits) or 48 boundary-biased samples, plus a Z3 "
    "equivalence query between BackendZ3.convert(result) and an independently built term. A case is non-trivial when it "
    "has >=2 operator nodes and (claripy rewrote/folded it, i.e. its op skeleton differs from a node-for-node build, or "
    "its width is not 8/32); distinct = distinct (tree, spelling) by SHA-1 of canonical JSON."
)
ASSUMPTIONS = [
    "Z3 4.13 bit-vector decision procedure (oracle-owned solver, timeout counted as inconclusive, never a violation)",
    "IR-to-claripy operator table: / and // = bvudiv, % = bvurem, >> = bvashr, LShR, SDiv = bvsdiv, SMod = bvsrem, Reverse = byte swap",
    "three independently written semantics (scalar Python, Z3 term builder, claripy-AST interpreter) agree with each other",
]
BUDGET_S = {"quick": 200, "thorough": 2400}

N = {
    "quick": {"random": 300, "template": 1200, "concrete": 150, "small": 250},
    "thorough": {"random": 6000, "template": 12000, "concrete": 2000, "small": 4000},
}


def shards(tier, seed):
    out = []
    for mode in ("random", "template", "concrete", "small"):
        for i in range(16):
            out.append({"mode": mode, "i": i, "n": N[tier][mode], "hseed": seed * 1000 + len(out)})
    for o1 in _ENUM_BIN:
        out.append({"mode": "enum", "i": 0, "n": 0, "hseed": 0, "wmax": 2 if tier == "quick" else 3, "op1": o1})
    for w in FOLD_WIDTHS[tier]:
        out.append({"mode": "fold", "i": 0, "n": 0, "hseed": 0, "width": w})
    return out


FOLD_WIDTHS = {"quick": (1, 8, 31, 32, 53, 54, 55, 63, 64, 65, 128), "thorough": (1, 2, 3, 7, 8, 9, 16, 31, 32, 33, 52, 53, 54, 55, 56, 63, 64, 65, 96, 127, 128, 129, 256)}


def _fold_values(n):
    m = (1 << n) - 1
    vals = set(ir.boundary_values(n))
    # values a float / a 32- or 64-bit host integer cannot carry, and small divisors
    vals |= {v & m for v in (3, 5, 10, (1 << 53) + 1, (1 << 53) - 1, (1 << 24) + 1, (1 << 31) + 1, (1 << 32) + 1, (1 << 63) + 1, m - 2, m // 3, m // 3 * 2 + 1, (m >> 1) - 1, (m >> 1) + 2)}
    return sorted(vals)


def _fold_trees(n):
    """Every binary operator and comparison on every pair of boundary constants of the width (fully concrete: eager folding), the
    same with the constant pair below a symbolic operand, and the unary / parametric operators on every boundary constant."""
    vals = _fold_values(n)
    x = ("var", f"v0_{n}", n)
    for a in vals:
        ca = ("const", a, n)
        for b in vals:
            cb = ("const", b, n)
            for o in ir.BV_BIN:
                yield (o, ca, cb)
            for o in ir.BV_CMP:
                yield (o, ca, cb)
            if a <= 2 or b <= 2 or a == vals[-1]:
                for o in ("bvsdiv", "bvsrem", "bvudiv", "bvurem", "bvmul"):
                    yield ("bvxor", x, (o, ca, cb))
        yield ("bvneg", ca)
        yield ("bvnot", ca)
        if n % 8 == 0:
            yield ("bswap", ca)
        for k in sorted({1, 7, 8, n, 64}):
            yield ("zext", k, ca)
            yield ("sext", k, ca)
        for hi in sorted({0, n // 2, n - 1}):
            for lo in sorted({0, hi // 2, hi}):
                yield ("extract", hi, lo, ca)


def check_case(tree, spell, use_z3=True):
    """-> (failures [(fp, obs)], info)"""
    tree = ir.T(tree)
    info = {"classes": [], "nontrivial": False}
    br = exprcheck.build(tree, spell)
    if br.exc is not None:
        if br.zero_div_ok:
            info["classes"].append("exempt-zero-division")
            return [], info
        if isinstance(br.exc, __import__("claripy").errors.ClaripyZeroDivisionError):
            return [("zero-division-with-nonzero-divisor:" + exprcheck.skeleton(tree), {"tree": ir.pretty(tree)})], info
        info["classes"].append("build-exception(C04)")
        info["build_exception"] = exprcheck.exc_fingerprint(br.exc)
        return [], info
    r = br.ast
    fail, cinfo = exprcheck.compare_meaning(tree, r, spell, use_z3=use_z3)
    rc = exprcheck.rewrite_class(tree, r)
    w = 0 if ir.is_bool(tree) else ir.width(tree)
    info["classes"] += [f"top:{tree[0]}", "bool" if w == 0 else exprcheck.width_class(w), rc, f"z3:{cinfo['z3']}"]
    info["nontrivial"] = ir.n_ops(tree) >= 2 and (rc != "untouched" or w not in (8, 32))
    info["z3"] = cinfo["z3"]
    if fail is None:
        return [], info
    kind, obs = fail

    def sub_fails(s):
        b2 = exprcheck.build(s, None)
        if b2.exc is not None:
            return False
        f2, _ = exprcheck.compare_meaning(s, b2.ast, 0, use_z3=use_z3)
        return f2 is not None

    ms = exprcheck.minimal_failing_subtree(tree, spell, sub_fails)
    fp = f"{kind}:{exprcheck.skeleton(ms)}"
    obs = dict(obs)
    obs["tree"] = ir.pretty(tree)
    obs["minimal_subtree"] = ir.pretty(ms)
    return [(fp, obs)], info


def replay(case):
    fails, _ = check_case(case["tree"], case.get("spell"))
    return fails


def _body(ctx, mode, use_z3=True):
    def body(v):
        tree, spell = v
        tname = None
        if mode == "template":
            tname, tree = tree
        case = {"tree": tree, "spell": spell}
        exprcheck.reset_caches()
        fails, info = check_case(tree, spell, use_z3=use_z3)
        if tname is not None:
            rc = [c for c in info["classes"] if c in ("rewritten", "folded-symbolic", "folded-concrete", "untouched", "leaf")]
            info["classes"].append(f"tpl:{tname}:{'changed' if rc and rc[0] not in ('untouched', 'leaf') else 'asis'}")
        if info.get("z3") == "unknown":
            ctx.count("oracle_inconclusive")
        if "build_exception" in info:
            ctx.count("build_exception:" + info["build_exception"])
        ctx.case(case, info["nontrivial"], [f"mode:{mode}", *info["classes"]], sample={"tree": ir.pretty(ir.T(tree)), "spell": spell, "mode": mode})
        for fp, obs in fails:
            ctx.fail(fp, case, obs)

    return body


_ENUM_BIN = ("bvadd", "bvsub", "bvmul", "bvudiv", "bvurem", "bvsdiv", "bvsrem", "bvand", "bvor", "bvxor", "bvshl", "bvlshr", "bvashr", "rotl", "rotr")


def _enum_trees(wmax, ops1):
    """Every shape op2(op1(x, c1), c2), op2(c2, op1(x,c1)), cmp(op1(x,c1), c2) with all constants, width<=wmax."""
    for n in range(1, wmax + 1):
        x = ("var", f"v0_{n}", n)
        consts = [("const", v, n) for v in range(1 << n)]
        for o1 in ops1:
            for c1 in consts:
                for inner in ((o1, x, c1), (o1, c1, x)):
                    for c2 in consts:
                        for o2 in _ENUM_BIN:
                            yield (o2, inner, c2)
                        for o2 in ("eq", "ne", "ult", "sle", "uge", "sgt"):
                            yield (o2, inner, c2)
                    yield ("bvnot", inner)
                    yield ("bvneg", inner)


def run_shard(shard, ctx):
    sem_z3.set_timeout(2000 if ctx.tier == "quick" else 10000)
    mode = shard["mode"]
    if mode == "enum":
        n = 0
        for tree in _enum_trees(shard["wmax"], (shard["op1"],)):
            if ctx.out_of_time():
                break
            n += 1
            _body(ctx, "enum")((tree, 0))
        ctx.extra["enumerated_two_operator_shapes"] = n
        ctx.extra["exhaustive"] = True
        ctx.extra["exhaustive_subdomain"] = f"all op2(op1(x,c1),c2) and mirrored/compare/unary variants, all constants, width 1..{shard['wmax']}"
        return
    if mode == "fold":
        n = 0
        for tree in _fold_trees(shard["width"]):
            if ctx.out_of_time():
                break
            n += 1
            _body(ctx, "fold", use_z3=False)((tree, n))
        ctx.extra["enumerated_constant_foldings"] = n
        return
    tier = ctx.tier
    if mode == "random":
        strat = gen.any_tree(gen.cfg_for(tier), max_depth=4)
    elif mode == "template":
        strat = gen.template_named(gen.cfg_for(tier))
    elif mode == "concrete":
        strat = st.one_of(gen.any_tree(gen.cfg_for(tier, concrete=True), max_depth=3), gen.template(gen.cfg_for(tier, concrete=True)))
    else:  # small: widths 1..4, all assignments enumerated
        strat = st.one_of(gen.any_tree(gen.cfg_for(tier, small=True), max_depth=4), gen.template(gen.cfg_for(tier, small=True)))
    if mode == "template":
        each = gen.templates_each(gen.cfg_for(tier))
        per = max(1, shard["n"] // len(each))
        for k, (_nm, strat1) in enumerate(each):
            hyp.run(st.tuples(strat1, st.integers(0, 2**32 - 1)), per, shard["hseed"] * 100 + k, _body(ctx, mode), ctx)
        return
    hyp.run(st.tuples(strat, st.integers(0, 2**32 - 1)), shard["n"], shard["hseed"], _body(ctx, mode), ctx)


def shrink(case, obs, fp, matcher, deadline):
    def still(c):
        fails, _ = check_case(c["tree"], c["spell"], use_z3=True)
        for f, o in fails:
            if f == fp and matcher.match(f, c, o) is None:
                return o
        return None

    def cands(c):
        for t in shrinker.tree_candidates(ir.T(c["tree"])):
            yield {"tree": t, "spell": c["spell"]}
        if c["spell"] != 0:
            yield {"tree": c["tree"], "spell": 0}

    c2, o2 = shrinker.greedy({"tree": ir.T(case["tree"]), "spell": case.get("spell", 0)}, cands, still, deadline)
    return c2, (o2 if o2 is not None else obs)


KNOWN_PREDICATES = {}
