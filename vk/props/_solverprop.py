"""Shared plumbing for the solver-history properties (C12-C16, C18): each is a configuration of the
solver machine -- which frontend classes, which rule groups, which failure clauses it owns."""

from __future__ import annotations

from .. import exprcheck, hyp, solver_machine as sm


def shards_for(tier, seed, base, configs, n_quick, n_thorough, per_quick=2, per_thorough=4):
    out = []
    for cfg in configs:
        for i in range(per_quick if tier == "quick" else per_thorough):
            out.append({**cfg, "i": i, "n": n_quick if tier == "quick" else n_thorough, "hseed": seed * 1000 + base + len(out)})
    return out


def run_case(case):
    m = sm.Machine(case["frontend"], reuse=case.get("reuse", False), approx=case.get("approx", False))
    return m.run(case["history"])


def replay(case, owns=None):
    res = run_case(case)
    out = {}
    for fp, obs in res.fails:
        if owns is None or owns(fp):
            out.setdefault(fp, obs)
    return list(out.items())


def stats_classes(res, keys=("repeat_queries", "unsat_reached", "extras", "branches", "maint", "bridging", "pickles", "algebra", "true_answers")):
    return ["has:" + k for k in keys if res.stats.get(k)]


def record(ctx, case, res, nontrivial, owns=None, extra_classes=()):
    ctx.case(case, nontrivial, [f"frontend:{case['frontend']}", *stats_classes(res), *extra_classes],
             sample={"frontend": case["frontend"], "history": case["history"][:10], "n_steps": len(case["history"])})
    ctx.count("steps", res.steps_run)
    for k, v in res.stats.items():
        ctx.count("stat:" + k, v)
    seen = set()
    for fp, obs in res.fails:
        if fp in seen:
            continue
        seen.add(fp)
        if owns is None or owns(fp):
            ctx.fail(fp, case, obs)
        else:
            ctx.count("attributed_elsewhere:" + ":".join(fp.split(":")[1:]))


def run_random(shard, ctx, groups, nontrivial_fn, owns=None, max_steps=40, exact_kw=None, extra=None, strategy=None):
    def body(hist):
        exprcheck.reset_caches()
        case = {"frontend": shard["frontend"], "reuse": shard.get("reuse", False), "approx": shard.get("approx", False), "history": hist}
        res = run_case(case)
        record(ctx, case, res, nontrivial_fn(res), owns, extra or ())

    hyp.run(strategy if strategy is not None else sm.histories(groups, max_steps=max_steps, exact_kw=exact_kw), shard["n"], shard["hseed"], body, ctx)


def shrink(case, obs, fp, matcher, deadline):
    known = (lambda h, f, o: matcher.match(f, {**case, "history": h}, o) is not None) if matcher is not None else None
    h, o = sm.shrink_history(case["frontend"], case["history"], fp, deadline, reuse=case.get("reuse", False), approx=case.get("approx", False), is_known=known)
    return {**case, "history": h}, (o if o is not None else obs)
