"""C07 -- annotations survive rewriting as the annotation contract promises."""

from __future__ import annotations

import claripy
from hypothesis import strategies as st

from .. import annos, build_claripy, exprcheck, gen, hyp, ir, shrink as shrinker

ID = "C07"
LEVEL = "exploration"
RULE = (
    "C01-style operation trees (rewrite templates weighted up, plus random and fully concrete trees) whose leaves and inner "
    "nodes carry 1-2 annotations from three instance-identified classes (eliminatable / pinned = non-eliminatable+non-relocatable / "
    "relocatable). After every single construction step (tap on each intermediate result): (i) every pinned instance reachable "
    "from an argument is still reachable from the result; (ii) every relocatable instance on a direct argument is on the result; "
    "(iii) claripy.simplify(e) keeps e's own annotations and the relocatable ones of e's direct args; (iv) a solver never rewrites "
    "or drops a constraint carrying SimplificationAvoidanceAnnotation across simplify()/min/max/eval(n>1). C01's meaning oracle runs "
    "as well. Non-trivial: the un-annotated version of the same tree is rewritten/folded by claripy and the tree carries at least "
    "one non-eliminatable annotation; distinct by SHA-1 of (tree, spelling)."
)
ASSUMPTIONS = ["annotation identity = class + id (harness classes define __eq__/__hash__ accordingly)"]
BUDGET_S = {"quick": 200, "thorough": 2400}
N = {"quick": 700, "thorough": 16000}


def shards(tier, seed):
    out = []
    for k in ("template", "template", "random", "small", "concrete", "solver"):
        for i in range(3 if tier == "quick" else 6):
            out.append({"kind": k, "i": i, "n": N[tier] if k != "solver" else N[tier] // 10, "hseed": seed * 1000 + 400 + len(out)})
    return out


def check_case(tree, spell):
    tree = ir.T(tree)
    build_claripy.ANNO_FACTORY = annos.factory
    fails = []
    info = {"classes": [], "nontrivial": False}
    results = {}

    def tap(r, sub):
        # called bottom-up for every intermediate result
        kids = ir.children(sub)
        key = id(sub)
        results[key] = r
        if not kids:
            return
        kid_asts = [results[id(k)] for k in kids if id(k) in results and isinstance(results[id(k)], claripy.ast.Base)]
        if sub[0] == "anno":
            want = annos.key(annos.factory(sub[1]))
            have = {annos.key(a) for a in r.annotations}
            if want not in have:
                fails.append((f"annotate-lost:{sub[1][0]}", {"sub": ir.pretty(sub), "result_annotations": repr(r.annotations)}))
        pinned_in = set()
        for k in kid_asts:
            pinned_in |= annos.reachable(k, "P")
        pinned_out = annos.reachable(r, "P")
        lost = pinned_in - pinned_out
        if lost:
            fails.append((f"pinned-lost:{sub[0]}", {"sub": ir.pretty(sub), "lost": sorted(lost), "result": repr(r)[:200]}))
        reloc_in = set()
        for k in kid_asts:
            reloc_in |= annos.top(k, "R")
        lost_r = reloc_in - annos.top(r, "R")
        if lost_r:
            fails.append((f"reloc-lost:{sub[0]}", {"sub": ir.pretty(sub), "lost": sorted(lost_r), "result": repr(r)[:200], "result_annotations": repr(r.annotations)}))

    try:
        r = build_claripy.build(tree, build_claripy.Chooser(spell), tap)
    except claripy.errors.ClaripyZeroDivisionError:
        info["classes"].append("zero-division")
        return [], info
    except Exception as e:  # noqa: BLE001 - construction crashes are C04's
        info["classes"].append("build-exception(C04)")
        info["build_exception"] = exprcheck.exc_fingerprint(e)
        return [], info

    # (iii) explicit simplification
    try:
        s = claripy.simplify(r)
    except Exception as e:  # noqa: BLE001 - C09 owns "simplify never chokes"
        s = None
        info["classes"].append("simplify-raises(C09)")
    if s is not None:
        want = {annos.key(a) for a in r.annotations if annos.key(a)}
        for x in r.args:
            if isinstance(x, claripy.ast.Base):
                want |= annos.top(x, "R")
        have = {annos.key(a) for a in s.annotations}
        if not (want <= have):
            fails.append((f"simplify-lost:{r.op}", {"tree": ir.pretty(tree), "lost": sorted(want - have), "before": repr(r.annotations), "after": repr(s.annotations)}))

    # meaning must not change either (so that "skipped the rewrite" cannot degrade into "changed the meaning")
    plain = annos.strip(tree)
    mf, _ = exprcheck.compare_meaning(plain, r, spell, use_z3=False)
    if mf is not None:
        fails.append((f"meaning:{mf[0]}:{exprcheck.skeleton(plain)}", {"tree": ir.pretty(tree), **mf[1]}))

    # classification
    try:
        r_plain = build_claripy.build(plain, build_claripy.Chooser(spell))
        rc = exprcheck.rewrite_class(plain, r_plain)
    except Exception:  # noqa: BLE001
        rc = "unknown"
    kinds = {s_[1][0] for s_ in ir.subtrees(tree) if s_[0] == "anno"}
    info["classes"] += [f"plain:{rc}", *(f"has:{k}" for k in sorted(kinds))]
    info["nontrivial"] = rc in ("rewritten", "folded-symbolic", "folded-concrete") and bool(kinds & {"P", "R"})
    # one failure per fingerprint
    uniq = {}
    for fp, obs in fails:
        uniq.setdefault(fp, obs)
    return list(uniq.items()), info


SAA = claripy.annotation.SimplificationAvoidanceAnnotation


def check_solver_case(case):
    """(iv): constraints carrying a SimplificationAvoidanceAnnotation stay in solver.constraints as the same object."""
    build_claripy.ANNO_FACTORY = annos.factory
    fails = []
    cons = []
    for t in case["constraints"]:
        try:
            cons.append(build_claripy.build(ir.T(t), build_claripy.Chooser(case["spell"])))
        except Exception:  # noqa: BLE001 - construction problems (a concrete division by zero, ...) are C01's / C04's business
            return [], {"classes": ["build-exception(C04)"], "nontrivial": False}
    marked_idx = [i for i in case["marked"] if i < len(cons)]
    marked = []
    for i in marked_idx:
        cons[i] = cons[i].annotate(SAA())
        marked.append(cons[i])
    frontends = {"Solver": claripy.Solver, "SolverComposite": claripy.SolverComposite, "SolverCacheless": claripy.SolverCacheless,
                 "SolverHybrid": claripy.SolverHybrid, "SolverReplacement": claripy.SolverReplacement}
    s = frontends[case["frontend"]]()
    try:
        for c in cons:
            s.add(c)
        for opn in case["ops"]:
            try:
                if opn == "simplify":
                    s.simplify()
                elif opn == "eval":
                    s.eval(claripy.BVS("v0_8", 8, explicit_name=True), 3)
                elif opn == "max":
                    s.max(claripy.BVS("v0_8", 8, explicit_name=True))
                elif opn == "min":
                    s.min(claripy.BVS("v0_8", 8, explicit_name=True), signed=True)
                elif opn == "branch":
                    s = s.branch()
                elif opn == "satisfiable":
                    s.satisfiable()
            except claripy.errors.UnsatError:
                pass
            live = {id(c) for c in s.constraints}
            for m in marked:
                # a marked constraint that folded to a plain true/false at construction is not "a constraint" any more
                if m.op == "BoolV":
                    continue
                if id(m) not in live:
                    fails.append((f"saa-rewritten:{case['frontend']}:{opn}", {"constraint": repr(m)[:200], "now": [repr(c)[:80] for c in s.constraints][:6]}))
    except claripy.errors.ClaripyError as e:
        return [], {"classes": ["solver-error:" + type(e).__name__], "nontrivial": False}
    except Exception as e:  # noqa: BLE001 - a solver that cannot even take the annotated constraint
        fails.append((f"saa-constraint-crashes:{case['frontend']}:{type(e).__name__}", {"exc": repr(e)[:200]}))
    uniq = {}
    for fp, obs in fails:
        uniq.setdefault(fp, obs)
    return list(uniq.items()), {"classes": [f"frontend:{case['frontend']}"], "nontrivial": bool(marked) and "simplify" in case["ops"]}


def replay(case):
    if "constraints" in case:
        return check_solver_case(case)[0]
    return check_case(case["tree"], case.get("spell", 0))[0]


def _solver_cases(tier):
    cfg = gen.cfg_for(tier, widths=(8,), nvars=2, no_boolvars=True)
    con = st.one_of(gen.bool_tree(2, cfg), gen.template_named({**cfg, "templates": ["conj_eqne", "uge_ne", "and_mask_cmp", "not_cmp", "if_cmp"]}).map(lambda v: v[1]))
    con = con.map(lambda t: t if ir.is_bool(t) else ("ne", t, ("const", 0, ir.width(t))))
    return st.fixed_dictionaries({
        "constraints": st.lists(con, min_size=1, max_size=5),
        "marked": st.lists(st.integers(0, 4), min_size=1, max_size=3, unique=True),
        "frontend": st.sampled_from(["Solver", "SolverComposite", "SolverCacheless", "SolverComposite", "SolverHybrid", "SolverReplacement"]),
        "ops": st.lists(st.sampled_from(["simplify", "simplify", "eval", "max", "min", "branch", "satisfiable"]), min_size=1, max_size=5),
        "spell": st.integers(0, 2**16),
    })


def run_shard(shard, ctx):
    kind = shard["kind"]
    tier = ctx.tier
    spell = st.integers(0, 2**32 - 1)

    def body(v):
        exprcheck.reset_caches()
        if kind == "solver":
            fails, info = check_solver_case(v)
            ctx.case(v, info["nontrivial"], ["kind:solver", *info["classes"]], sample={"frontend": v["frontend"], "ops": v["ops"], "n_constraints": len(v["constraints"]), "marked": v["marked"]})
            for fp, obs in fails:
                ctx.fail(fp, v, obs)
            return
        tree, sp = v
        case = {"tree": tree, "spell": sp}
        fails, info = check_case(tree, sp)
        if "build_exception" in info:
            ctx.count("build_exception:" + info["build_exception"])
        ctx.case(case, info["nontrivial"], [f"kind:{kind}", *info["classes"]], sample={"tree": ir.pretty(ir.T(tree)), "spell": sp})
        for fp, obs in fails:
            ctx.fail(fp, case, obs)

    if kind == "solver":
        hyp.run(_solver_cases(tier), shard["n"], shard["hseed"], body, ctx)
        return
    if kind == "template":
        each = gen.templates_each(gen.cfg_for(tier))
        per = max(1, shard["n"] // len(each))
        for k, (_nm, strat1) in enumerate(each):
            strat = strat1.map(lambda v: v[1]).flatmap(annos.sprinkle)
            hyp.run(st.tuples(strat, spell), per, shard["hseed"] * 100 + k, body, ctx)
        return
    if kind == "random":
        base = gen.any_tree(gen.cfg_for(tier), 3)
    elif kind == "small":
        cfg = gen.cfg_for(tier, small=True)
        base = st.one_of(gen.any_tree(cfg, 3), gen.template(cfg))
    else:
        cfg = gen.cfg_for(tier, concrete=True)
        base = st.one_of(gen.any_tree(cfg, 3), gen.template(cfg))
    hyp.run(st.tuples(base.flatmap(annos.sprinkle), spell), shard["n"], shard["hseed"], body, ctx)


def shrink(case, obs, fp, matcher, deadline):
    if "constraints" in case:
        return case, obs

    def still(c):
        for f, o in check_case(c["tree"], c["spell"])[0]:
            if f == fp:
                return o
        return None

    def cands(c):
        t = ir.T(c["tree"])
        for t2 in shrinker.tree_candidates(t):
            yield {"tree": t2, "spell": c["spell"]}
        # drop one annotation wrapper
        for path, sub in shrinker._paths(t):
            if sub[0] == "anno":
                yield {"tree": shrinker._replace_at(t, path, sub[2]), "spell": c["spell"]}

    c2, o2 = shrinker.greedy({"tree": ir.T(case["tree"]), "spell": case.get("spell", 0)}, cands, still, deadline)
    return c2, (o2 if o2 is not None else obs)


KNOWN_PREDICATES = {}
