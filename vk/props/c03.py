"""C03 -- string operations mean the same folded and solved, for every character."""

from __future__ import annotations

import claripy
import z3
from hypothesis import strategies as st

from .. import build_claripy, exprcheck, hyp, shrink as shrinker, strcheck as sc

ID = "C03"
LEVEL = "exploration"
RULE = (
    "Cases are string operation trees (concat, substr, replace, len, contains, prefixof, suffixof, indexof, to-int, from-int, =, !=) "
    "of depth <= 3 over an alphabet of NUL, backslash, regex metacharacters, newline, digits, signs, letters, Latin-1, U+20AC, astral "
    "code points and the literal text of SMT-LIB escapes, with 64-bit index operands from {0,1,2,3,5..7, 2^31-1, 2^31, 2^32, 2^63-1, "
    "2^63, 2^64-2, 2^64-1}; built through claripy's public API in a generated spelling. Modes: (1) concrete trees: the folded result "
    "must equal the value of an independently built Z3 term (literals from Unit(Char(cp)), never z3.StringVal) and must equal a "
    "second, scalar Python reference; (2) the same trees with leaves replaced by a symbolic string: BackendZ3.convert(result) with the "
    "assignment substituted must give the same value (the solver's meaning) -- so folded == solved; (3) every string constant: "
    "BackendZ3.convert(StringV(s)) must be Z3-equal to the code-point literal and have its length; (4) model-driven evaluation: the "
    "tree over a symbolic string evaluated under a cached model (ModelCache.eval_ast), the path solver frontends use to answer from "
    "their cache. Integer results are compared as 64-bit patterns. Non-trivial: an operand contains a character outside [A-Za-z0-9] "
    "or an index >= 16; distinct by SHA-1 of (tree, spelling, assignment)."
)
ASSUMPTIONS = [
    "Z3 4.13's sequence rewriter evaluates ground string terms per SMT-LIB Strings (cross-checked against the scalar Python reference on every case; a disagreement between the two references is counted, never reported as a violation)",
]
BUDGET_S = {"quick": 200, "thorough": 2400}


def _val_desc(v):
    return repr(v)[:120]


def sut_value(r):
    """Literal value of a folded claripy result, else None."""
    if r.op == "StringV":
        return r.args[0]
    if r.op == "BVV":
        return r.args[0]
    if r.op == "BoolV":
        return bool(r.args[0])
    return None


def ref_values(t, env):
    """-> (z3 value, python value, agree?)"""
    zv = sc.z3_value(sc.z3_subst(sc.z3term(t), env))
    try:
        pv = sc.ev(t, env)
    except Exception:  # noqa: BLE001 - the scalar reference is only a cross-check
        return zv, None, True
    return zv, pv, zv == pv


def check_case(case):
    """-> (failures, info)"""
    t = sc.T(case["tree"])
    mode = case["mode"]
    spell = case.get("spell", 0)
    env = case.get("env") or {}
    info = {"classes": [f"mode:{mode}", f"top:{t[0]}", f"sort:{sc.sort_of(t)}"], "nontrivial": sc.is_nontrivial(t) or any(not (c.isascii() and c.isalnum()) for v in env.values() for c in v)}
    fails = []
    if mode == "const":
        s = t[1]
        try:
            term = claripy.backends.z3.convert(claripy.StringV(s))
        except Exception as e:  # noqa: BLE001
            return [("const:convert-raises:" + type(e).__name__, {"text": repr(s), "exc": repr(e)[:200]})], info
        try:
            got = sc.z3_string_value(term)
        except ValueError:
            got = None
        if got != s:
            fails.append(("const:reaches-solver-differently", {"text": repr(s), "in_z3": _val_desc(got)}))
        return fails, info
    try:
        want, pywant, agree = ref_values(t, env)
    except (ValueError, z3.Z3Exception):
        info["classes"].append("reference-not-ground")
        return [], info
    if not agree:
        info["classes"].append("references-disagree")
        info["ref_disagree"] = {"tree": sc.pretty(t), "z3": _val_desc(want), "python": _val_desc(pywant)}
        return [], info
    try:
        r = sc.build(t, build_claripy.Chooser(spell))
    except Exception as e:  # noqa: BLE001 - crashes are C04's
        info["classes"].append("build-exception(C04):" + type(e).__name__)
        return [], info
    if mode == "concrete":
        got = sut_value(r)
        if got is None:
            info["classes"].append("not-folded")
            try:
                got = sc.z3_value(claripy.backends.z3.convert(r))
            except Exception as e:  # noqa: BLE001
                info["classes"].append("convert-exception:" + type(e).__name__)
                return [], info
            path = "translated"
        else:
            path = "folded"
        info["classes"].append(path)
        if got != want or type(got) is not type(want):
            fails.append((f"{path}:{_min_op(t, spell, 'concrete', {})}", {"tree": sc.pretty(t), "got": _val_desc(got), "want": _val_desc(want)}))
        return fails, info
    if mode == "solved":
        try:
            term = claripy.backends.z3.convert(r)
            got = sc.z3_value(sc.z3_subst(term, env))
        except Exception as e:  # noqa: BLE001
            info["classes"].append("convert-exception:" + type(e).__name__)
            return [], info
        if got != want or type(got) is not type(want):
            fails.append((f"solved:{_min_op(t, spell, 'solved', env)}", {"tree": sc.pretty(t), "env": env, "got": _val_desc(got), "want": _val_desc(want), "claripy": repr(r)[:200]}))
        return fails, info
    # model-driven evaluation (what ModelCacheMixin does with a cached model)
    from claripy.frontend.mixin.model_cache_mixin import ModelCache

    try:
        got = ModelCache(dict(env)).eval_ast(r)
    except Exception as e:  # noqa: BLE001
        fails.append((f"model-eval:raises:{exprcheck.exc_fingerprint(e)}", {"tree": sc.pretty(t), "env": env, "exc": repr(e)[:200]}))
        return fails, info
    if isinstance(got, bool) or not isinstance(got, int):
        ok = got == want and type(got) is type(want)
    else:
        ok = isinstance(want, int) and not isinstance(want, bool) and (got & sc.M64) == want
    if not ok:
        fails.append((f"model-eval:{_min_op(t, spell, 'model', env)}", {"tree": sc.pretty(t), "env": env, "got": _val_desc(got), "want": _val_desc(want)}))
    return fails, info


_IN_MIN = False


def _min_op(t, spell, mode, env):
    """Top operator of the smallest failing sub-tree (root-cause key)."""
    global _IN_MIN
    if _IN_MIN:
        return t[0]
    _IN_MIN = True
    try:
        for s in sorted(sc.subtrees(t), key=lambda x: len(repr(x))):
            if not sc.children(s) or s is t:
                continue
            f, _ = check_case({"mode": mode, "tree": s, "spell": spell, "env": env})
            if f:
                return s[0]
        return t[0]
    finally:
        _IN_MIN = False


def replay(case):
    exprcheck.reset_caches(force=True)
    fails, _ = check_case(case)
    out = {}
    for fp, obs in fails:
        out.setdefault(fp, obs)
    return list(out.items())


N = {"quick": {"concrete": 900, "solved": 500, "model": 500, "const": 300}, "thorough": {"concrete": 25000, "solved": 12000, "model": 12000, "const": 6000}}


def shards(tier, seed):
    out = []
    for mode, per in (("concrete", 6), ("solved", 4), ("model", 4), ("const", 1)):
        for i in range(per):
            out.append({"mode": mode, "i": i, "n": N[tier][mode], "hseed": seed * 1000 + 300 + len(out)})
    out.append({"mode": "enum"})
    return out


def _symbolize(draw, t):
    """Replace some constant leaves by the symbolic string s0 / s1 and return (tree, env)."""
    env = {}

    def walk(x):
        if x[0] == "sconst" and draw(st.integers(0, 2)) != 0:
            name = "s0" if "s0" not in env or env["s0"] == x[1] else "s1" if "s1" not in env or env["s1"] == x[1] else None
            if name is not None:
                env[name] = x[1]
                return ("svar", name)
        if x[0] in ("sconst", "svar", "const"):
            return x
        return (x[0], *[walk(c) for c in x[1:]])

    t2 = walk(t)
    if not env:
        # force one symbolic leaf
        def first(x):
            if x[0] == "sconst" and not env:
                env["s0"] = x[1]
                return ("svar", "s0")
            if x[0] in ("sconst", "svar", "const"):
                return x
            return (x[0], *[first(c) for c in x[1:]])

        t2 = first(t)
    return t2, env


def _enum_cases():
    """Every binary/ternary operation over a small pool of short 'dangerous' strings and boundary indices."""
    pool = ["", "a", "ab", "a.", ".", "(", "\\", "\x00", "5", "-5", "+5", "05", "\\u{48}", "€", "aba", "\U0001f600", "٣", " 1"]
    idx = [0, 1, 2, 3, 1 << 31, (1 << 63), sc.M64]
    for a in pool:
        sa = ("sconst", a)
        yield ("slen", sa)
        yield ("to_int", sa)
        for b in pool:
            sb = ("sconst", b)
            for op in ("contains", "prefixof", "suffixof", "seq", "sne"):
                yield (op, sa, sb)
            yield ("sconcat", sa, sb)
            for i in idx:
                yield ("indexof", sa, sb, ("const", i, 64))
            for c in ("", "X", "a"):
                yield ("sreplace", sa, sb, ("sconst", c))
        for i in idx:
            for n in idx:
                yield ("substr", sa, ("const", i, 64), ("const", n, 64))
    for v in (0, 1, 9, 10, 12345, 1 << 31, 1 << 63, sc.M64):
        yield ("from_int", ("const", v, 64))


def run_shard(shard, ctx):
    mode = shard["mode"]

    def record(case, fails, info):
        if "ref_disagree" in info:
            ctx.count("references_disagree")
            lst = ctx.extra.setdefault("reference_disagreements", [])
            if len(lst) < 10:
                lst.append(info["ref_disagree"])
        ctx.case(case, info["nontrivial"], info["classes"], sample={"mode": case["mode"], "tree": sc.pretty(sc.T(case["tree"])), "env": case.get("env")})
        seen = set()
        for fp, obs in fails:
            if fp not in seen:
                seen.add(fp)
                ctx.fail(fp, case, obs)

    if mode == "enum":
        n = 0
        for t in _enum_cases():
            if ctx.out_of_time():
                return
            for m in ("concrete", "model"):
                if m == "model":
                    # first constant leaf becomes the symbolic string
                    env = {}

                    def first(x, env=env):
                        if x[0] == "sconst" and not env:
                            env["s0"] = x[1]
                            return ("svar", "s0")
                        if x[0] in ("sconst", "svar", "const"):
                            return x
                        return (x[0], *[first(c) for c in x[1:]])

                    t2 = first(t)
                    if not env:
                        continue
                    case = {"mode": "model", "tree": t2, "spell": 0, "env": env}
                else:
                    case = {"mode": "concrete", "tree": t, "spell": 0}
                fails, info = check_case(case)
                n += 1
                record(case, fails, info)
        ctx.extra["enumerated_pool_cases"] = n
        ctx.extra["exhaustive"] = True
        ctx.extra["exhaustive_subdomain"] = "every string operation over an 18-string pool of boundary texts x 7 boundary indices (folded, and evaluated under a model)"
        return
    if mode == "const":
        def body(s):
            case = {"mode": "const", "tree": ("sconst", s)}
            fails, info = check_case(case)
            record(case, fails, info)

        hyp.run(st.one_of(sc.texts(8), st.text(max_size=6)), shard["n"], shard["hseed"], body, ctx)
        return

    @st.composite
    def strat(draw):
        t = draw(sc.any_tree(3, symbolic=False))
        spell = draw(st.integers(0, 2**16))
        if mode == "concrete":
            return {"mode": mode, "tree": t, "spell": spell}
        t2, env = _symbolize(draw, t)
        return {"mode": mode, "tree": t2, "spell": spell, "env": env}

    def body(case):
        exprcheck.reset_caches()
        if mode != "concrete" and not case["env"]:
            return
        fails, info = check_case(case)
        record(case, fails, info)

    hyp.run(strat(), shard["n"], shard["hseed"], body, ctx)


def shrink(case, obs, fp, matcher, deadline):
    def still(c):
        for f, o in replay(c):
            if f == fp and matcher.match(f, c, o) is None:
                return o
        return None

    def cands(c):
        t = sc.T(c["tree"])
        for s in sc.subtrees(t):
            if s is not t and sc.children(s):
                yield {**c, "tree": s}
        if c.get("spell"):
            yield {**c, "spell": 0}

    c2, o2 = shrinker.greedy(dict(case), cands, still, deadline)
    return c2, (o2 if o2 is not None else obs)


KNOWN_PREDICATES = {}
