"""C04 -- building and folding well-typed expressions never crashes."""

from __future__ import annotations

import json
import os
import resource
import signal
import subprocess
import sys
import tempfile

import claripy
from hypothesis import strategies as st

from .. import env, exprcheck, gen, hyp, ir

ID = "C04"
LEVEL = "exploration"
RULE = (
    "Cases are well-typed BV/Bool/FP/string operation trees from the C01/C02/C03 generators in 'extreme' mode (shift/rotate "
    "amounts near 2^k and 2^n, extension amounts 0/1/large, widths 1..256, NaN/inf/subnormals, metacharacter strings, huge "
    "indices) plus all shape templates, built through the public API under RLIMIT_AS and a per-case watchdog. Oracle: the "
    "build returns an AST or raises a ClaripyError for a documented condition that really holds on the tree (semantically "
    "zero divisor; byte reversal of a non-byte width; unsupported float sort). A case is non-trivial when it has >=2 "
    "operators and contains an extreme constant/special value; distinct by SHA-1 of (tree, spelling)."
)
ASSUMPTIONS = [
    "RLIMIT_AS of 6 GiB per worker turns runaway allocation into MemoryError",
    "a case is a hang only if it exceeds 10 s in the worker AND 100 s when re-run alone in a fresh process; otherwise inconclusive",
]
BUDGET_S = {"quick": 200, "thorough": 2400}
N = {"quick": 3000, "thorough": 60000}


def shards(tier, seed):
    out = []
    kinds = ["bv-extreme", "bv-template", "bv-concrete", "bswap-odd", "fp", "str"]
    for k in kinds:
        for i in range(2 if tier == "quick" else 6):
            out.append({"kind": k, "i": i, "n": N[tier], "hseed": seed * 1000 + 100 + len(out)})
    return out


class _Timeout(Exception):
    pass


def _alarm(_sig, _frm):
    raise _Timeout


def _has_extreme(t):
    for s in ir.subtrees(t):
        if s[0] == "const":
            v, n = s[1], s[2]
            if n >= 8 and (v >= (1 << (n - 1)) or v in (n - 1, n, n + 1)):
                return True
            if n < 8 and v in (0, (1 << n) - 1):
                return True
        if s[0] in ("zext", "sext") and s[1] in (0, 1):
            return True
    return False


def _odd_bswap_expected(t):
    return any(s[0] == "bswap" and ir.width(s[1]) % 8 != 0 for s in ir.subtrees(t))


def classify_bv(tree, spell):
    """-> (failures, info)"""
    tree = ir.T(tree)
    br = exprcheck.build(tree, spell)
    info = {"classes": [], "nontrivial": ir.n_ops(tree) >= 2 and _has_extreme(tree)}
    if br.exc is None:
        info["classes"].append("returned-ast")
        return [], info
    e = br.exc
    if isinstance(e, claripy.errors.ClaripyZeroDivisionError):
        if br.zero_div_ok:
            info["classes"].append("documented:zero-division")
            return [], info
        return [("zero-division-nonzero-divisor", {"tree": ir.pretty(tree)})], info
    if isinstance(e, claripy.errors.ClaripyOperationError) and "reverse" in str(e) and _odd_bswap_expected(tree):
        info["classes"].append("documented:reverse-non-byte")
        return [], info
    return [(exprcheck.exc_fingerprint(e), {"tree": ir.pretty(tree), "exc": f"{type(e).__name__}: {str(e)[:200]}"})], info


def classify(case):
    kind = case.get("sort", "bv")
    if kind == "bv":
        return classify_bv(case["tree"], case.get("spell", 0))
    if kind == "fp":
        from .. import fpcheck

        return fpcheck.classify_crash(case)
    if kind == "str":
        from .. import strcheck

        return strcheck.classify_crash(case)
    raise ValueError(kind)


def replay(case):
    fails, _ = classify(case)
    return fails


def _isolated_hang(case):
    """Re-run one case alone in a fresh process with a 100 s limit."""
    with tempfile.NamedTemporaryFile("w", suffix=".json", delete=False) as f:
        json.dump({"case": case}, f)
        path = f.name
    try:
        subprocess.run(
            [sys.executable, "-B", "-m", "vk.main", "C04", "--replay", path],
            cwd=env.VERIF_DIR, timeout=100, capture_output=True, check=False,
            env={**os.environ, "PYTHONPATH": env.VERIF_DIR, "PYTHONHASHSEED": "0"},
        )
        return False
    except subprocess.TimeoutExpired:
        return True
    finally:
        os.unlink(path)


def _body(ctx, kind):
    def body(case):
        exprcheck.reset_caches()
        signal.setitimer(signal.ITIMER_REAL, 10)
        try:
            fails, info = classify(case)
        except _Timeout:
            ctx.count("suspect_slow")
            if _isolated_hang(case):
                ctx.fail("hang:" + kind, case, {"note": ">10s in worker and >100s alone"})
            else:
                ctx.count("slow_inconclusive")
            return
        except MemoryError:
            fails, info = [("MemoryError@outside-frame", {"note": "MemoryError escaped"})], {"classes": [], "nontrivial": True}
        finally:
            signal.setitimer(signal.ITIMER_REAL, 0)
        ctx.case(case, info["nontrivial"], [f"kind:{kind}", *info["classes"]], sample=_sample(case))
        for fp, obs in fails:
            ctx.fail(fp, case, obs)

    return body


def _sample(case):
    if case.get("sort", "bv") == "bv":
        return {"tree": ir.pretty(ir.T(case["tree"])), "spell": case.get("spell", 0)}
    return case


def run_shard(shard, ctx):
    try:
        resource.setrlimit(resource.RLIMIT_AS, (6 << 30, 6 << 30))
    except (ValueError, OSError):
        pass
    signal.signal(signal.SIGALRM, _alarm)
    kind = shard["kind"]
    tier = ctx.tier
    wide = gen.WIDTHS_THOROUGH + (128, 256, 1, 64, 64)
    spell = st.integers(0, 2**32 - 1)
    if kind == "bv-extreme":
        cfg = gen.cfg_for(tier, widths=wide)
        strat = st.tuples(gen.any_tree(cfg, max_depth=4), spell).map(lambda v: {"sort": "bv", "tree": v[0], "spell": v[1]})
    elif kind == "bv-template":
        cfg = gen.cfg_for(tier, widths=wide)
        strat = st.tuples(gen.template(cfg), spell).map(lambda v: {"sort": "bv", "tree": v[0], "spell": v[1]})
    elif kind == "bv-concrete":
        cfg = gen.cfg_for(tier, widths=wide, concrete=True)
        strat = st.tuples(st.one_of(gen.any_tree(cfg, max_depth=3), gen.template(cfg)), spell).map(lambda v: {"sort": "bv", "tree": v[0], "spell": v[1]})
    elif kind == "bswap-odd":
        # documented error class: byte reversal of a non-byte width (concrete => eager error, symbolic => AST)
        w = st.sampled_from((1, 3, 7, 9, 12, 17, 33, 63, 65))
        inner = w.flatmap(lambda n: st.one_of(gen.consts(n), gen.bv_vars(n), gen.bv_tree(n, 1, gen.cfg_for(tier, widths=(n,)))))
        strat = st.tuples(inner, spell).map(lambda v: {"sort": "bv", "tree": ("bswap", v[0]), "spell": v[1]})
    elif kind == "fp":
        from .. import fpcheck

        strat = fpcheck.crash_cases(tier)
    elif kind == "str":
        from .. import strcheck

        strat = strcheck.crash_cases(tier)
    else:
        raise ValueError(kind)
    hyp.run(strat, shard["n"], shard["hseed"], _body(ctx, kind), ctx)


KNOWN_PREDICATES = {}
