"""C04 -- building and folding well-typed expressions never crashes."""

from __future__ import annotations

import json
import os
import resource
import signal
import subprocess
import sys
import tempfile

import claripy
from hypothesis import strategies as st

from .. import env, exprcheck, gen, hyp, ir

ID = "C04"
LEVEL = "exploration"
RULE = (
    "Cases are well-typed BV/Bool/FP/string operation trees from the C01/C02/C03 generators in 'extreme' mode (shift/rotate "
    "amounts near 2^k and 2^n, extension amounts 0/1/large, widths 1..256, NaN/inf/subnormals, metacharacter strings, huge "
    "indices) plus all shape templates, built through the public API under RLIMIT_AS and a per-case watchdog. Oracle: the "
    "build returns an AST or raises a ClaripyError for a documented condition that really holds on the tree (semantically "
    "zero divisor; byte reversal of a non-byte width; unsupported float sort). In addition atheris (libFuzzer, coverage of claripy's "
    "simplifier / operations / AST / concrete backend) drives a total byte->tree decoder with the same oracle inside the target, from "
    "an empty and from a small seeded corpus (2 short campaigns in the quick tier, 10 x 250 000 runs in the thorough tier); findings do "
    "not stop a campaign. A case is non-trivial when it has >=2 "
    "operators and contains an extreme constant/special value; distinct by SHA-1 of (tree, spelling)."
)
ASSUMPTIONS = [
    "RLIMIT_AS of 6 GiB per worker turns runaway allocation into MemoryError",
    "a case is a hang only if it exceeds 10 s in the worker AND 100 s when re-run alone in a fresh process; otherwise inconclusive",
]
BUDGET_S = {"quick": 200, "thorough": 2400}
N = {"quick": 3000, "thorough": 60000}


def shards(tier, seed):
    out = []
    kinds = ["bv-extreme", "bv-template", "bv-concrete", "bswap-odd", "fp", "str"]
    for k in kinds:
        for i in range(2 if tier == "quick" else 6):
            out.append({"kind": k, "i": i, "n": N[tier], "hseed": seed * 1000 + 100 + len(out)})
    # every arithmetic operation on every pair of boundary floats in every rounding mode, and the conversions from wide bitvectors:
    # folding must not raise (quick: a seed-selected quarter of the pairs)
    parts = 4 if tier == "quick" else 1
    for srt in ("FLOAT", "DOUBLE"):
        out.append({"kind": "fp-fold", "sort": srt, "part": seed % parts, "parts": parts})
    # coverage-guided part: atheris (libFuzzer) on a byte -> well-typed-tree decoder, one process per shard, own corpus each
    for i in range(2 if tier == "quick" else 10):
        out.append({"kind": "atheris", "i": i, "runs": 8000 if tier == "quick" else 250000, "fseed": seed * 100 + i + 1, "seed_corpus": i % 2 == 1})
    return out


class _Timeout(Exception):
    pass


def _alarm(_sig, _frm):
    raise _Timeout


def _has_extreme(t):
    for s in ir.subtrees(t):
        if s[0] == "const":
            v, n = s[1], s[2]
            if n >= 8 and (v >= (1 << (n - 1)) or v in (n - 1, n, n + 1)):
                return True
            if n < 8 and v in (0, (1 << n) - 1):
                return True
        if s[0] in ("zext", "sext") and s[1] in (0, 1):
            return True
    return False


def _odd_bswap_expected(t):
    return any(s[0] == "bswap" and ir.width(s[1]) % 8 != 0 for s in ir.subtrees(t))


def classify_bv(tree, spell):
    """-> (failures, info)"""
    tree = ir.T(tree)
    br = exprcheck.build(tree, spell)
    info = {"classes": [], "nontrivial": ir.n_ops(tree) >= 2 and _has_extreme(tree)}
    if br.exc is None:
        info["classes"].append("returned-ast")
        return [], info
    e = br.exc
    if isinstance(e, claripy.errors.ClaripyZeroDivisionError):
        if br.zero_div_ok:
            info["classes"].append("documented:zero-division")
            return [], info
        return [("zero-division-nonzero-divisor", {"tree": ir.pretty(tree)})], info
    if isinstance(e, claripy.errors.ClaripyOperationError) and "reverse" in str(e) and _odd_bswap_expected(tree):
        info["classes"].append("documented:reverse-non-byte")
        return [], info
    return [(exprcheck.exc_fingerprint(e), {"tree": ir.pretty(tree), "exc": f"{type(e).__name__}: {str(e)[:200]}"})], info


def classify(case):
    kind = case.get("sort", "bv")
    if kind == "bv":
        return classify_bv(case["tree"], case.get("spell", 0))
    if kind == "fp":
        from .. import fpcheck

        return fpcheck.classify_crash(case)
    if kind == "str":
        from .. import strcheck

        return strcheck.classify_crash(case)
    raise ValueError(kind)


def replay(case):
    fails, _ = classify(case)
    return fails


def _isolated_hang(case):
    """Re-run one case alone in a fresh process with a 100 s limit."""
    with tempfile.NamedTemporaryFile("w", suffix=".json", delete=False) as f:
        json.dump({"case": case}, f)
        path = f.name
    try:
        subprocess.run(
            [sys.executable, "-B", "-m", "vk.main", "C04", "--replay", path],
            cwd=env.VERIF_DIR, timeout=100, capture_output=True, check=False,
            env={**os.environ, "PYTHONPATH": env.VERIF_DIR, "PYTHONHASHSEED": "0"},
        )
        return False
    except subprocess.TimeoutExpired:
        return True
    finally:
        os.unlink(path)


def _body(ctx, kind):
    def body(case):
        exprcheck.reset_caches()
        signal.setitimer(signal.ITIMER_REAL, 10)
        try:
            fails, info = classify(case)
        except _Timeout:
            ctx.count("suspect_slow")
            if _isolated_hang(case):
                ctx.fail("hang:" + kind, case, {"note": ">10s in worker and >100s alone"})
            else:
                ctx.count("slow_inconclusive")
            return
        except MemoryError:
            fails, info = [("MemoryError@outside-frame", {"note": "MemoryError escaped"})], {"classes": [], "nontrivial": True}
        finally:
            signal.setitimer(signal.ITIMER_REAL, 0)
        ctx.case(case, info["nontrivial"], [f"kind:{kind}", *info["classes"]], sample=_sample(case))
        for fp, obs in fails:
            ctx.fail(fp, case, obs)

    return body


def _sample(case):
    if case.get("sort", "bv") == "bv":
        return {"tree": ir.pretty(ir.T(case["tree"])), "spell": case.get("spell", 0)}
    return case


def _run_atheris(shard, ctx):
    """One libFuzzer campaign in a child process (fuzz/c04_target.py); findings it logged are re-classified here."""
    import shutil

    work = tempfile.mkdtemp(prefix="vk-c04-fuzz-")
    try:
        corpus = os.path.join(work, "corpus")
        os.makedirs(corpus)
        if shard["seed_corpus"]:
            # a few small valid inputs; the other half of the campaigns starts from an empty corpus
            for k, blob in enumerate((b"\x00" * 8, b"\x01\x02\x03\x04\x05\x06\x07\x08\x09\x0a\x0b\x0c", bytes(range(40)), b"\xff" * 24, b"\x10\x03\x12\x17\x00\x01\x18\x05\x02" * 3)):
                with open(os.path.join(corpus, f"seed{k}"), "wb") as f:
                    f.write(blob)
        budget = max(30, int(ctx.deadline - __import__("time").time()) - 20)
        cmd = [sys.executable, "-B", os.path.join(env.VERIF_DIR, "fuzz", "c04_target.py"), work, f"-runs={shard['runs']}", f"-seed={shard['fseed']}",
               "-max_len=512", f"-max_total_time={budget}", "-rss_limit_mb=6000", "-timeout=100", f"-artifact_prefix={work}{os.sep}", corpus]
        p = subprocess.run(cmd, cwd=env.VERIF_DIR, capture_output=True, check=False, timeout=budget + 120,
                           env={**os.environ, "PYTHONPATH": env.VERIF_DIR + os.pathsep + env.DEPS_DIR, "PYTHONHASHSEED": "0"})
        stats = {"execs": 0, "trees": 0, "findings": 0}
        sp = os.path.join(work, "stats.json")
        if os.path.exists(sp):
            with open(sp) as f:
                stats = json.load(f)
        ctx.evaluations += stats["execs"]
        ctx.extra["enumerated_distinct_nontrivial"] = 0
        ctx.count("atheris_execs", stats["execs"])
        ctx.count("atheris_distinct_trees", stats["trees"])
        ctx.count("atheris_corpus_files", len(os.listdir(corpus)))
        ctx.classes["kind:atheris"] += stats["execs"]
        fp_ = os.path.join(work, "findings.jsonl")
        if os.path.exists(fp_):
            with open(fp_) as f:
                for line in f:
                    case = json.loads(line)["case"]
                    fails, info = classify(case)
                    ctx.case(case, True, ["kind:atheris-finding"], sample=_sample(case))
                    for fpn, obs in fails:
                        ctx.fail(fpn, case, obs)
        # libFuzzer's own crash artefacts (timeouts / OOM / an exception escaping the target)
        crashes = [n for n in os.listdir(env.VERIF_DIR) if n.startswith(("crash-", "timeout-", "oom-"))]
        if p.returncode not in (0,) and stats["execs"] == 0:
            raise RuntimeError("atheris target did not start: " + p.stderr.decode(errors="replace")[-400:])
        for n in crashes:
            os.unlink(os.path.join(env.VERIF_DIR, n))
        if p.returncode != 0 and stats["execs"] > 0:
            ctx.count("atheris_abnormal_exit")
            ctx.extra.setdefault("atheris_stderr_tail", []).append(p.stderr.decode(errors="replace")[-300:])
    finally:
        shutil.rmtree(work, ignore_errors=True)


def run_shard(shard, ctx):
    if shard["kind"] == "atheris":
        return _run_atheris(shard, ctx)
    try:
        resource.setrlimit(resource.RLIMIT_AS, (6 << 30, 6 << 30))
    except (ValueError, OSError):
        pass
    signal.signal(signal.SIGALRM, _alarm)
    kind = shard["kind"]
    tier = ctx.tier
    wide = gen.WIDTHS_THOROUGH + (128, 256, 1, 64, 64)
    spell = st.integers(0, 2**32 - 1)
    if kind == "bv-extreme":
        cfg = gen.cfg_for(tier, widths=wide)
        strat = st.tuples(gen.any_tree(cfg, max_depth=4), spell).map(lambda v: {"sort": "bv", "tree": v[0], "spell": v[1]})
    elif kind == "bv-template":
        cfg = gen.cfg_for(tier, widths=wide)
        strat = st.tuples(gen.template(cfg), spell).map(lambda v: {"sort": "bv", "tree": v[0], "spell": v[1]})
    elif kind == "bv-concrete":
        cfg = gen.cfg_for(tier, widths=wide, concrete=True)
        strat = st.tuples(st.one_of(gen.any_tree(cfg, max_depth=3), gen.template(cfg)), spell).map(lambda v: {"sort": "bv", "tree": v[0], "spell": v[1]})
    elif kind == "bswap-odd":
        # documented error class: byte reversal of a non-byte width (concrete => eager error, symbolic => AST)
        w = st.sampled_from((1, 3, 7, 9, 12, 17, 33, 63, 65))
        inner = w.flatmap(lambda n: st.one_of(gen.consts(n), gen.bv_vars(n), gen.bv_tree(n, 1, gen.cfg_for(tier, widths=(n,)))))
        strat = st.tuples(inner, spell).map(lambda v: {"sort": "bv", "tree": ("bswap", v[0]), "spell": v[1]})
    elif kind == "fp-fold":
        from .. import fpcheck as fc

        srt = shard["sort"]
        pool = fc.pool(srt)
        body = _body(ctx, "fp")
        k = 0
        for a in pool:
            for b in pool:
                k += 1
                if k % shard["parts"] != shard["part"] or ctx.out_of_time():
                    continue
                for op in fc.FP_ARITH:
                    for rm in fc.RMS:
                        body({"sort": "fp", "tree": (op, rm, ("fconst", a, srt), ("fconst", b, srt)), "spell": 0})
        for size in (64, 128, 1024, 1025):
            for c in (0, 1, (1 << size) - 1, 1 << (size - 1), (1 << (size - 1)) - 1, (1 << 127) % (1 << size), ((1 << 128) - 1) % (1 << size)):
                for rm in fc.RMS:
                    for op in ("to_fp_sbv", "to_fp_ubv"):
                        body({"sort": "fp", "tree": (op, rm, ("const", c, size), srt), "spell": 0})
        return
    elif kind == "fp":
        from .. import fpcheck

        strat = fpcheck.crash_cases(tier)
    elif kind == "str":
        from .. import strcheck

        strat = strcheck.crash_cases(tier)
    else:
        raise ValueError(kind)
    hyp.run(strat, shard["n"], shard["hseed"], _body(ctx, kind), ctx)


KNOWN_PREDICATES = {}
