"""C18 -- pickled expressions and solvers round-trip with identical meaning."""

from __future__ import annotations

import json
import os
import pickle
import subprocess
import sys
import tempfile

import claripy
from hypothesis import strategies as st

from .. import annos, build_claripy, env, exprcheck, fpcheck, gen, hyp, ir, solver_machine as sm, strcheck
from . import _solverprop as sp
from .c06 import deep_key

ID = "C18"
LEVEL = "exploration"
RULE = (
    "(a) Expressions of all sorts from the BV/Bool/FP/string generators, with built-in and harness annotation classes: in-process "
    "loads(dumps(e)) must be the same object; (b) the same pickles are loaded in child processes started with PYTHONHASHSEED in "
    "{0, 1, 12345} - each child reports a canonical structural dump (type, op, width, args recursively, annotations by class and "
    "fields), whether a structurally identical rebuild in the child is the same object as the unpickled one, and the value under "
    "sampled assignments, which must match the parent's dump / the IR evaluator; a pickle whose original has died is re-loaded in the "
    "parent and must be structurally equal to what was pickled; (c) solver histories with a pickle step (replace the solver by its "
    "unpickled copy, or keep both) on every frontend class, later answers checked against the brute-force model set. Non-trivial: the "
    "expression carries an annotation / FP sort / rounding mode (hash-seed dependent), or the pickled solver had run a query and an add "
    "follows the unpickle; distinct by SHA-1 of the case."
)
ASSUMPTIONS = ["child processes import claripy from the same VERIF_REPO", "structural equality of annotations = class + fields"]
BUDGET_S = {"quick": 300, "thorough": 3000}
N_EXPR = {"quick": 160, "thorough": 6000}
N_HIST = {"quick": 120, "thorough": 3000}
SOLVER_FRONTENDS = ("Solver", "SolverCacheless", "SolverComposite", "SolverReplacement", "SolverHybrid", "SolverComposite-track", "Solver-track")
GROUPS = ("core", "maint", "branch", "pickle")


def shards(tier, seed):
    out = []
    for i in range(6 if tier == "quick" else 10):
        out.append({"kind": "expr", "i": i, "n": N_EXPR[tier], "hseed": seed * 1000 + 1800 + i})
    cfgs = [{"frontend": fe} for fe in SOLVER_FRONTENDS]
    # approximate mode: answers are not determined by the constraints, so the unpickled copy is compared with the original
    cfgs += [{"frontend": "SolverHybrid", "exact_kw": [False], "approx": True}, {"frontend": "SolverHybrid", "exact_kw": [None, True, False], "approx": True}]
    for cfg in cfgs:
        for i in range(1 if tier == "quick" else 3):
            out.append({"kind": "solver", **cfg, "i": i, "n": N_HIST[tier], "hseed": seed * 1000 + 1850 + len(out)})
        for i in range(1 if tier == "quick" else 2):
            # directed: pickle taken while adds are unchecked / a branch family shares children / caches are full
            out.append({"kind": "solver", "scenario": True, **cfg, "i": i, "n": N_HIST[tier] * 2 // 3, "hseed": seed * 1000 + 1850 + len(out)})
    return out


def owns(fp):
    return True


# ------------------------------------------------------------------ expressions


def build_case(case):
    sort = case["sort"]
    ch = build_claripy.Chooser(case.get("spell", 0))
    build_claripy.ANNO_FACTORY = annos.factory
    if sort == "bv":
        return build_claripy.build(ir.T(case["tree"]), ch)
    if sort == "fp":
        return fpcheck.build(fpcheck.T(case["tree"]), ch)
    return strcheck.build(strcheck.T(case["tree"]), ch)


def dump(e):
    return repr(deep_key(e, {}))


CHILD_CODE = r"""
import sys, json, pickle, gc
sys.path.insert(0, {verif!r})
from vk import env
env.import_claripy()
import claripy
from vk.props import c18
items = json.load(open({inp!r}))
out = []
for it in items:
    rec = {{}}
    try:
        e = pickle.loads(bytes.fromhex(it["pickle"]))
        rec["dump"] = c18.dump(e)
        rebuilt = c18.build_case(it["case"])
        rec["same_object_as_rebuild"] = rebuilt is e
        rec["rebuild_dump_equal"] = c18.dump(rebuilt) == rec["dump"]
        rec["hash_consistent"] = (claripy.ast.Base._calc_hash(e.op, e.args, e.annotations, e.length) == e._hash)
    except Exception as ex:
        rec["error"] = repr(ex)[:300]
    out.append(rec)
json.dump(out, open({outp!r}, "w"))
"""


def run_child(items, hashseed):
    with tempfile.TemporaryDirectory() as td:
        inp, outp = os.path.join(td, "in.json"), os.path.join(td, "out.json")
        json.dump(items, open(inp, "w"))
        code = CHILD_CODE.format(verif=env.VERIF_DIR, inp=inp, outp=outp)
        envv = {**os.environ, "PYTHONHASHSEED": str(hashseed), "PYTHONPATH": env.VERIF_DIR + os.pathsep + env.DEPS_DIR}
        p = subprocess.run([sys.executable, "-B", "-c", code], env=envv, capture_output=True, text=True, timeout=600, check=False)
        if p.returncode != 0:
            raise env.HarnessError("C18 child failed: " + p.stderr[-2000:])
        return json.load(open(outp))


def check_expr_batch(cases):
    """-> list of (case, fails)"""
    results = [[] for _ in cases]
    items = []
    idx = []
    for k, case in enumerate(cases):
        try:
            e = build_case(case)
        except Exception:  # noqa: BLE001 - C04's
            continue
        try:
            data = pickle.dumps(e, -1)
        except Exception as ex:  # noqa: BLE001
            results[k].append(("pickle-raises:" + exprcheck.exc_fingerprint(ex), {"case": _sample(case), "exc": repr(ex)[:200]}))
            continue
        try:
            back = pickle.loads(data)
        except Exception as ex:  # noqa: BLE001
            results[k].append(("unpickle-raises:" + exprcheck.exc_fingerprint(ex), {"case": _sample(case), "exc": repr(ex)[:200]}))
            continue
        if back is not e:
            results[k].append((f"inprocess-not-identical:{case['sort']}:{e.op}", {"case": _sample(case), "original": repr(e)[:150], "unpickled": repr(back)[:150]}))
        d0 = dump(e)
        # original dead -> reload must be structurally what was pickled
        del back
        del e
        import gc

        gc.collect()
        again = pickle.loads(data)
        if dump(again) != d0:
            results[k].append((f"reload-structure-differs:{case['sort']}:{again.op}", {"case": _sample(case), "pickled": d0[:300], "reloaded": dump(again)[:300]}))
        del again
        items.append({"case": case, "pickle": data.hex(), "dump": d0})
        idx.append(k)
    for hs in (0, 1, 12345):
        if not items:
            break
        outs = run_child(items, hs)
        for it, rec, k in zip(items, outs, idx, strict=True):
            case = it["case"]
            if "error" in rec:
                results[k].append((f"crossprocess-raises:{case['sort']}", {"case": _sample(case), "hashseed": hs, "error": rec["error"]}))
                continue
            if rec["dump"] != it["dump"]:
                results[k].append((f"crossprocess-structure-differs:{case['sort']}", {"case": _sample(case), "hashseed": hs, "parent": it["dump"][:300], "child": rec["dump"][:300]}))
            elif rec["rebuild_dump_equal"] and not rec["same_object_as_rebuild"]:
                results[k].append((f"crossprocess-not-hashconsed:{case['sort']}", {"case": _sample(case), "hashseed": hs, "hash_consistent": rec["hash_consistent"]}))
    return results


def _sample(case):
    t = case["tree"]
    if case["sort"] == "bv":
        return {"sort": "bv", "tree": ir.pretty(ir.T(t)), "spell": case.get("spell", 0)}
    if case["sort"] == "fp":
        return {"sort": "fp", "tree": fpcheck.pretty(fpcheck.T(t))}
    return {"sort": "str", "tree": strcheck.pretty(strcheck.T(t))}


def _nontrivial_expr(case):
    if case["sort"] == "fp":
        return True
    if case["sort"] == "bv":
        return any(s[0] == "anno" for s in ir.subtrees(ir.T(case["tree"])))
    return False


def replay(case):
    if "history" in case:
        return sp.replay(case)
    return check_expr_batch([case])[0]


def run_shard(shard, ctx):
    tier = ctx.tier
    if shard["kind"] == "solver":
        def nontrivial(res):
            return bool(res.stats.get("pickles")) and res.stats.get("queries", 0) >= 1 and res.stats.get("adds", 0) >= 1

        kw = shard.get("exact_kw")
        sp.run_random(shard, ctx, GROUPS, nontrivial, exact_kw=kw, strategy=sm.scenario_pickle(kw) if shard.get("scenario") else None,
                      extra=[f"mode:{'approx' if shard.get('approx') else 'exact'}"])
        return
    spell = st.integers(0, 2**16)
    cfg = gen.cfg_for(tier)
    bv = st.one_of(gen.any_tree(cfg, 3), gen.template(cfg))
    anno_kinds = ("E", "P", "R")
    strat = st.one_of(
        st.tuples(bv, spell).map(lambda v: {"sort": "bv", "tree": v[0], "spell": v[1]}),
        st.tuples(bv.flatmap(lambda t: annos.sprinkle(t, 3, 10, anno_kinds)), spell).map(lambda v: {"sort": "bv", "tree": v[0], "spell": v[1]}),
        st.tuples(fpcheck.any_tree(3, symbolic=True), spell).map(lambda v: {"sort": "fp", "tree": v[0], "spell": v[1]}),
        st.tuples(strcheck.any_tree(2, symbolic=True), spell).map(lambda v: {"sort": "str", "tree": v[0], "spell": v[1]}),
    )
    batch = []

    def flush():
        if not batch:
            return
        exprcheck.reset_caches(force=True)
        res = check_expr_batch(batch)
        for case, fails in zip(batch, res, strict=True):
            ctx.case(case, _nontrivial_expr(case), [f"sort:{case['sort']}"], sample=_sample(case))
            seen = set()
            for fp, obs in fails:
                if fp not in seen:
                    seen.add(fp)
                    ctx.fail(fp, case, obs)
        batch.clear()

    def body(case):
        batch.append(case)
        if len(batch) >= 80:
            flush()

    hyp.run(strat, shard["n"], shard["hseed"], body, ctx)
    flush()


def shrink(case, obs, fp, matcher, deadline):
    if "history" in case:
        return sp.shrink(case, obs, fp, matcher, deadline)
    return case, obs


KNOWN_PREDICATES = {}
