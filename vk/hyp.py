"""Hypothesis driving: seeded, no database, no deadline, generate-only (failures are collected by the
property body, not raised, so Hypothesis' own shrinker has nothing to do; a Python exception escaping
a body is a harness error)."""

from __future__ import annotations

import hypothesis
from hypothesis import HealthCheck, Phase, given, settings


def run(strategy, n, hseed, body, ctx=None):
    """Calls body(value) for n generated values.  Stops early when ctx runs out of time."""

    class _Stop(Exception):
        pass

    @hypothesis.seed(hseed)
    @settings(
        max_examples=n,
        database=None,
        deadline=None,
        derandomize=False,
        report_multiple_bugs=False,
        phases=[Phase.generate],
        suppress_health_check=[HealthCheck.too_slow, HealthCheck.data_too_large, HealthCheck.large_base_example],
    )
    @given(strategy)
    def _t(v):
        if ctx is not None and ctx.out_of_time():
            raise _Stop
        try:
            body(v)
        except MemoryError:
            # workers run under an address-space limit (runner._worker) so that a runaway allocation fails inside the case;
            # where the property module does not judge that itself (C04 does), the case is counted and the shard goes on
            if ctx is None:
                raise
            import gc

            gc.collect()
            ctx.count("memory_error_in_case")

    try:
        _t()
    except _Stop:
        pass


def run_machine(machine_cls, n, hseed, steps=40):
    from hypothesis.stateful import run_state_machine_as_test

    run_state_machine_as_test(
        hypothesis.seed(hseed)(machine_cls),
        settings=settings(
            max_examples=n,
            stateful_step_count=steps,
            database=None,
            deadline=None,
            report_multiple_bugs=False,
            phases=[Phase.generate],
            suppress_health_check=[HealthCheck.too_slow, HealthCheck.data_too_large, HealthCheck.large_base_example, HealthCheck.filter_too_much],
        ),
    )
