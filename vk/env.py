"""Process environment for every check: dependency path, code-under-test path, import guard.

Every check imports the code under test from $VERIF_REPO (default /repo).  claripy is pure Python,
so "rebuild from the working tree" is exactly this import.  If claripy resolves anywhere else the
check stops with exit 2 (harness error), never with a VIOLATION.
"""

from __future__ import annotations

import os
import sys

VERIF_DIR = os.path.dirname(os.path.dirname(os.path.abspath(__file__)))
DEPS_DIR = os.path.join(VERIF_DIR, ".deps")
REPO_DIR = os.path.abspath(os.environ.get("VERIF_REPO", "/repo"))
GUARD = "CLARIPY_VERIF"


class HarnessError(Exception):
    """Anything that is the harness's fault (exit 2)."""


def setup_paths():
    if DEPS_DIR not in sys.path:
        sys.path.append(DEPS_DIR)  # after /venv's site-packages: /venv's own copies win
    if VERIF_DIR not in sys.path:
        sys.path.insert(0, VERIF_DIR)
    if not sys.path or sys.path[0] != REPO_DIR:
        if REPO_DIR in sys.path:
            sys.path.remove(REPO_DIR)
        sys.path.insert(0, REPO_DIR)
    os.environ[GUARD] = "1"


def import_claripy():
    setup_paths()
    import logging

    logging.disable(logging.WARNING)  # claripy warns about utf-8 coercions etc.; irrelevant for verdicts
    import claripy

    f = os.path.abspath(claripy.__file__)
    if not f.startswith(REPO_DIR + os.sep):
        raise HarnessError(f"claripy imported from {f}, expected under {REPO_DIR}")
    return claripy


def seed() -> int:
    try:
        return int(os.environ.get("VERIF_SEED", "1"))
    except ValueError:
        return 1
