"""Fault injection at the solver-check boundary (C17): replaces z3.Solver.check / reason_unknown from outside
claripy, so claripy's own unknown-to-exception mapping is part of what is tested.

kind "A": return unknown WITHOUT calling the real check.   kind "B": call the real check, then report unknown.
kind "C": raise z3.Z3Exception instead of answering -- how Z3 reports "reached max unfolding" (sequence / recursive
function solver), "out of memory" and some cancellations.
Only calls made while a window is open (an operation of the solver under test is on the stack) are counted / faulted.
"""

from __future__ import annotations

import z3

REASONS = ("timeout", "max. resource limit exceeded", "canceled")
KINDS = ("A", "B", "C")


class _State:
    def __init__(self):
        self.installed = False
        self.window = False
        self.count = 0  # checks seen inside windows since reset()
        self.armed_at = None  # absolute index (1-based) of the check to fault
        self.kind = "A"
        self.reason = "timeout"
        self.fired = False
        self.faulted_solver = None
        self.orig_check = None
        self.orig_reason = None


S = _State()


def _check(self, *args):
    if not S.window:
        return S.orig_check(self, *args)
    S.count += 1
    if S.armed_at is not None and S.count == S.armed_at and not S.fired:
        S.fired = True
        S.faulted_solver = self
        if S.kind == "B":
            S.orig_check(self, *args)
        if S.kind == "C":
            raise z3.Z3Exception(b"reached max unfolding" if S.reason == "timeout" else b"out of memory" if S.reason.startswith("max.") else b"canceled")
        return z3.unknown
    return S.orig_check(self, *args)


def _reason_unknown(self):
    if S.faulted_solver is self:
        return S.reason
    return S.orig_reason(self)


def install():
    if S.installed:
        return
    if not hasattr(z3.Solver, "check") or not hasattr(z3.Solver, "reason_unknown"):
        raise RuntimeError("z3.Solver.check / reason_unknown not found")
    S.orig_check = z3.Solver.check
    S.orig_reason = z3.Solver.reason_unknown
    z3.Solver.check = _check
    z3.Solver.reason_unknown = _reason_unknown
    S.installed = True


def uninstall():
    if S.installed:
        z3.Solver.check = S.orig_check
        z3.Solver.reason_unknown = S.orig_reason
        S.installed = False


def reset():
    S.window = False
    S.count = 0
    S.armed_at = None
    S.fired = False
    S.faulted_solver = None


def arm(at, kind, reason):
    S.armed_at, S.kind, S.reason, S.fired = at, kind, reason, False


class window:
    def __enter__(self):
        S.window = True
        return S

    def __exit__(self, *a):
        S.window = False
        return False
