"""Entry point:  python -m vk.main <ID> --tier quick|thorough [--replay FILE]"""

from __future__ import annotations

import argparse
import os
import sys
import traceback


def main(argv=None):
    ap = argparse.ArgumentParser()
    ap.add_argument("prop")
    ap.add_argument("--tier", default=os.environ.get("VERIF_TIER", "quick"), choices=["quick", "thorough"])
    ap.add_argument("--replay", default=None)
    ap.add_argument("--seed", type=int, default=None)
    a = ap.parse_args(argv)
    # claripy's behaviour depends on Python's hash seed in places (iteration order of sets of variable names and solvers):
    # the hash seed is part of what VERIF_SEED selects -- VERIF_SEED=1 (the default) runs under hash seed 0, VERIF_SEED=n under
    # n-1 -- and a replay file records the one it was found under
    want = None
    if a.replay:
        try:
            import json

            with open(a.replay) as f:
                want = json.load(f).get("hashseed")
        except (OSError, ValueError):
            want = None
    if want is None:
        try:
            vs = a.seed if a.seed is not None else int(os.environ.get("VERIF_SEED", "1"))
        except ValueError:
            vs = 1
        want = (vs - 1) % 4294967296
    if os.environ.get("PYTHONHASHSEED") != str(want):
        os.environ["PYTHONHASHSEED"] = str(want)
        os.execv(sys.executable, [sys.executable, "-B", "-m", "vk.main", *(argv or sys.argv[1:])])
    try:
        from vk import env, runner

        env.setup_paths()
        if a.prop == "selftest":
            from vk import selftest

            return selftest.main(sys.argv[2:])
        return runner.run_property(a.prop.upper(), a.tier, seed=a.seed, replay=a.replay)
    except SystemExit:
        raise
    except BaseException:  # noqa: BLE001
        sys.stderr.write("HARNESS ERROR:\n" + traceback.format_exc())
        return 2


if __name__ == "__main__":
    sys.exit(main())
