"""Instance-identified annotation classes following claripy/annotation.py's contract, shared by C05/C07/C18,
and the strategy that sprinkles them over IR trees."""

from __future__ import annotations

import claripy
from hypothesis import strategies as st

from . import ir


class _Base(claripy.Annotation):
    KIND = "?"

    def __init__(self, ident):
        self.ident = ident

    def __eq__(self, o):
        return type(o) is type(self) and o.ident == self.ident

    def __hash__(self):
        return hash((self.KIND, self.ident))

    def __repr__(self):
        return f"<{self.KIND}{self.ident}>"


class Elim(_Base):
    """eliminatable: may vanish with the sub-expression it is attached to."""

    KIND = "E"


class Pinned(_Base):
    """not eliminatable, not relocatable: the rewrite must be skipped instead."""

    KIND = "P"

    @property
    def eliminatable(self):
        return False

    @property
    def relocatable(self):
        return False


class Reloc(_Base):
    """not eliminatable, relocatable: must end up on the result."""

    KIND = "R"

    @property
    def eliminatable(self):
        return False

    @property
    def relocatable(self):
        return True

    def relocate(self, src, dst):
        return self


_CLS = {"E": Elim, "P": Pinned, "R": Reloc}


def factory(spec):
    return _CLS[spec[0]](spec[1])


def key(a):
    return (a.KIND, a.ident) if isinstance(a, _Base) else None


def reachable(ast, kind):
    """Content keys of all annotations of class `kind` attached to any node reachable from ast."""
    out = set()
    seen = set()
    stack = [ast]
    while stack:
        x = stack.pop()
        if id(x) in seen:
            continue
        seen.add(id(x))
        for a in x.annotations:
            if isinstance(a, _Base) and a.KIND == kind:
                out.add(key(a))
        stack.extend(y for y in x.args if isinstance(y, claripy.ast.Base))
    return out


def top(ast, kind):
    return {key(a) for a in ast.annotations if isinstance(a, _Base) and a.KIND == kind}


@st.composite
def sprinkle(draw, tree, p_num=2, p_den=10, kinds=("E", "P", "R")):
    """Wrap random sub-trees of an IR tree into ("anno", [kind, id], sub) nodes; ids are unique per tree."""
    counter = [0]

    def rec(t):
        ch = [rec(c) for c in ir.children(t)]
        t2 = ir.with_children(t, ch) if ch else t
        if draw(st.integers(1, p_den)) <= p_num:
            for _ in range(draw(st.integers(1, 2))):
                counter[0] += 1
                t2 = ("anno", (draw(st.sampled_from(kinds)), counter[0]), t2)
        return t2

    out = rec(tree)
    if counter[0] == 0:
        out = ("anno", (draw(st.sampled_from(kinds)), 1), out)
    return out


def strip(t):
    """The same tree without annotation wrappers."""
    if t[0] == "anno":
        return strip(t[2])
    ch = ir.children(t)
    return ir.with_children(t, [strip(c) for c in ch]) if ch else t
