"""Oracle 2: an independently built Z3 term for an IR tree (plain z3py API, main context),
plus small helpers that decide questions about IR trees with oracle-owned solvers."""

from __future__ import annotations

import z3

from . import ir

ORACLE_TIMEOUT_MS = 2000


def set_timeout(ms):
    global ORACLE_TIMEOUT_MS
    ORACLE_TIMEOUT_MS = ms


def build(t):
    op = t[0]
    if op == "var":
        return z3.BitVec(t[1], t[2])
    if op == "const":
        return z3.BitVecVal(t[1], t[2])
    if op == "bvar":
        return z3.Bool(t[1])
    if op == "bconst":
        return z3.BoolVal(bool(t[1]))
    if op in ir.BV_BIN:
        a, b = build(t[1]), build(t[2])
        if op == "bvadd":
            return a + b
        if op == "bvsub":
            return a - b
        if op == "bvmul":
            return a * b
        if op == "bvudiv":
            return z3.UDiv(a, b)
        if op == "bvurem":
            return z3.URem(a, b)
        if op == "bvsdiv":
            return a / b
        if op == "bvsrem":
            return z3.SRem(a, b)
        if op == "bvand":
            return a & b
        if op == "bvor":
            return a | b
        if op == "bvxor":
            return a ^ b
        if op == "bvshl":
            return a << b
        if op == "bvlshr":
            return z3.LShR(a, b)
        if op == "bvashr":
            return a >> b
        if op == "rotl":
            return z3.RotateLeft(a, b)
        if op == "rotr":
            return z3.RotateRight(a, b)
    if op == "bvneg":
        return -build(t[1])
    if op == "bvnot":
        return ~build(t[1])
    if op == "bswap":
        a = build(t[1])
        n = ir.width(t[1])
        parts = [z3.Extract(i + 7, i, a) for i in range(0, n, 8)]
        return parts[0] if len(parts) == 1 else z3.Concat(*parts)
    if op == "concat":
        parts = [build(c) for c in t[1:]]
        return parts[0] if len(parts) == 1 else z3.Concat(*parts)
    if op == "extract":
        return z3.Extract(t[1], t[2], build(t[3]))
    if op == "zext":
        return z3.ZeroExt(t[1], build(t[2])) if t[1] else build(t[2])
    if op == "sext":
        return z3.SignExt(t[1], build(t[2])) if t[1] else build(t[2])
    if op in ("ite", "bite"):
        return z3.If(build(t[1]), build(t[2]), build(t[3]))
    if op in ir.BV_CMP:
        a, b = build(t[1]), build(t[2])
        return {
            "eq": lambda: a == b,
            "ne": lambda: a != b,
            "ult": lambda: z3.ULT(a, b),
            "ule": lambda: z3.ULE(a, b),
            "ugt": lambda: z3.UGT(a, b),
            "uge": lambda: z3.UGE(a, b),
            "slt": lambda: a < b,
            "sle": lambda: a <= b,
            "sgt": lambda: a > b,
            "sge": lambda: a >= b,
        }[op]()
    if op == "and":
        return z3.And(*[build(c) for c in t[1:]]) if len(t) > 2 else build(t[1])
    if op == "or":
        return z3.Or(*[build(c) for c in t[1:]]) if len(t) > 2 else build(t[1])
    if op == "not":
        return z3.Not(build(t[1]))
    if op == "beq":
        return build(t[1]) == build(t[2])
    if op == "bne":
        return build(t[1]) != build(t[2])
    if op == "anno":
        return build(t[2])
    raise ValueError(f"sem_z3.build: {op}")


def _solver():
    s = z3.Solver()
    s.set("timeout", ORACLE_TIMEOUT_MS)
    return s


def check_sat(*terms):
    """'sat' | 'unsat' | 'unknown' with an oracle-owned solver."""
    s = _solver()
    for t in terms:
        s.add(t)
    r = s.check()
    return "sat" if r == z3.sat else "unsat" if r == z3.unsat else "unknown"


def equivalent(term_a, term_b):
    """(verdict, model) where verdict in 'equal' 'different' 'unknown'."""
    s = _solver()
    s.add(term_a != term_b)
    r = s.check()
    if r == z3.unsat:
        return "equal", None
    if r == z3.sat:
        m = s.model()
        cex = {}
        for d in m.decls():
            v = m[d]
            if z3.is_bv_value(v):
                cex[d.name()] = v.as_long()
            elif z3.is_true(v) or z3.is_false(v):
                cex[d.name()] = z3.is_true(v)
            else:
                cex[d.name()] = str(v)
        return "different", cex
    return "unknown", None


def always_equals(t, value) -> bool:
    """Is BV tree t equal to `value` under every assignment?  ('unknown' counts as no.)"""
    vs = ir.variables(t)
    envs = ir.all_envs(vs, 10)
    if envs is not None:
        return all(ir.ev(t, e) == value for e in envs)
    return check_sat(build(t) != z3.BitVecVal(value, ir.width(t))) == "unsat"


def eval_ground(term):
    """Simplify a ground term to a Python int/bool."""
    r = z3.simplify(term)
    if z3.is_bv_value(r):
        return r.as_long()
    if z3.is_true(r):
        return True
    if z3.is_false(r):
        return False
    raise ValueError(f"not ground: {r}")


def subst_eval(term, envd):
    """Evaluate a term under an assignment by substitution + simplification."""
    subs = []
    for d in _free_consts(term):
        name = d.decl().name()
        if name not in envd:
            raise KeyError(name)
        v = envd[name]
        if z3.is_bv(d):
            subs.append((d, z3.BitVecVal(v, d.size())))
        elif z3.is_bool(d):
            subs.append((d, z3.BoolVal(bool(v))))
    return eval_ground(z3.substitute(term, *subs) if subs else term)


def _free_consts(term):
    seen = {}
    stack = [term]
    visited = set()
    while stack:
        x = stack.pop()
        i = x.get_id()
        if i in visited:
            continue
        visited.add(i)
        if z3.is_const(x) and x.decl().kind() == z3.Z3_OP_UNINTERPRETED:
            seen[x.decl().name()] = x
        else:
            stack.extend(x.children())
    return list(seen.values())


def free_const_names(term):
    return sorted(d.decl().name() for d in _free_consts(term))
