"""What is registered in MANIFEST.json (edit here, then run gen_manifest.py)."""

CHECKS = {
    "C01": {
        "level": "exploration",
        "technique": "property-based testing: generated operation trees (Hypothesis + bounded enumeration) vs independent evaluator and Z3 equivalence oracle",
        "text": "Generated-input search: random typed BV/Bool trees, rewrite-shaped templates an exhaustive enumeration of two-operator shapes at width<=3 and an enumeration of every binary operator / comparison on every pair of ~30 boundary constants at 11-23 widths up to 256 bits (constant folding) are built through the public API and compared, for all assignments (small widths) or by a Z3 validity query, with an independently written semantics. No counterexample in the explored space; absence elsewhere is not claimed.",
        "note": "Trusts Z3's bit-vector decision procedure and the three independently written reference semantics agreeing; per-case Z3 timeouts are counted inconclusive.",
    },
    "C04": {
        "level": "exploration",
        "technique": "property-based testing / fuzzing: generated extreme-argument operation trees (BV, FP, strings) with an exception-type oracle, memory limit and hang watchdog",
        "text": "Generated-input search for crashes: trees from the BV/FP/string grammars in extreme-constant mode and all rewrite templates are built through the public API under RLIMIT_AS and a watchdog; any exception other than a documented ClaripyError whose condition really holds on the tree is a violation. Shows absence of crashes only on the explored cases.",
        "note": "Memory exhaustion is detected through RLIMIT_AS (6 GiB); a hang needs >10 s in the worker and >100 s alone in a fresh process, otherwise it is counted inconclusive.",
    },
    "C05": {
        "level": "exploration",
        "technique": "property-based testing: recomputation oracle over every AST node produced by generated constructions, substitutions, annotation edits and Z3 abstraction",
        "text": "Generated-input search: for every node of every AST produced while building generated BV/Bool/FP/string trees (incl. annotated and fully concrete ones), simplifying them through Z3, substituting, editing annotations and applying the ITE utilities, the reported width, variable set, symbolic flag, depth, leaf list and concrete value are recomputed independently from the node's arguments (and from the Z3 sort / free constants) and compared.",
        "note": "Trusts the independent AST interpreter for concrete values and Z3's sort/free-constant inspection; only generated expressions are covered.",
    },
    "C06": {
        "level": "exploration",
        "technique": "stateful property-based testing: generated histories of build/annotate/drop+gc/pickle/rebuild steps with a pairwise deep-structural-equality invariant",
        "text": "Generated histories (<=40 steps) over a pool of live expressions with annotation field values built to collide under Python's hash; after every step all pairs of live expressions satisfy `a is b` iff deep structural equality computed without hashes, and non-rewriting constructors return exactly what was requested. Failing histories are ddmin-reduced.",
        "note": "Annotation identity is class+fields for value-semantics classes and object identity for classes without __eq__/__hash__; annotation tuples are ordered, as claripy stores them.",
    },
    "C07": {
        "level": "exploration",
        "technique": "property-based testing: annotated operation trees with a reachability oracle on annotation instances after every construction step",
        "text": "Generated trees (all rewrite templates uniformly, random, small, concrete) with eliminatable / pinned / relocatable annotation instances on leaves and inner nodes; after each construction step pinned instances reachable from the arguments must be reachable from the result and relocatable ones of direct arguments must be on the result; claripy.simplify keeps top-level and direct-argument relocatable annotations; solver simplify/min/max/eval keep SimplificationAvoidance-annotated constraints as the same objects; the meaning oracle of C01 runs too.",
        "note": "The solver part runs Solver, SolverCacheless, SolverComposite, SolverHybrid and SolverReplacement; a non-claripy exception while taking an annotated constraint is reported.",
    },
    "C08": {
        "level": "exploration",
        "technique": "property-based testing: generated expressions and utility arguments checked against evaluator-level specifications (exhaustive assignments at small widths, Z3 equivalence otherwise)",
        "text": "Generated-input search over replace / replace_dict / canonicalize / identical / excavate_ite / burrow_ite / ite_cases / ite_dict / reverse_ite_cases / chop / get_bytes: each result is compared with an executable specification of the utility (IR-level substitution, first-true-case, table lookup, byte slicing, injective sort-preserving renaming, existence of a variable bijection for identical()==True) on all assignments at <=10 variable bits, sampled assignments plus a Z3 validity query above.",
        "note": "identical(): only True answers are checked; reverse_ite_cases: exhaustiveness and per-case correctness, not exclusivity (not promised).",
    },
    "C09": {
        "level": "exploration",
        "technique": "property-based testing: generated BV/Bool/FP/string trees and solver histories through claripy.simplify / backends.z3.simplify / Solver.simplify, equivalence decided by independent evaluator + Z3 validity query (BV), sampled-assignment substitution (FP, strings) and brute-force model sets (solvers)",
        "text": "Generated trees (random, rewrite templates, shapes that Z3 rewrites into other operators, and an enumerated list applying every FP operator claripy can express directly to variables) are simplified through claripy.simplify and backends.z3.simplify: no exception is allowed (only backends.z3.simplify may decline string trees with BackendError) and the result must be equivalent to the written tree. Solver histories with simplify() interleaved must keep the brute-force model set of solver.constraints unchanged and answer correctly afterwards; FP/string constraint sets must simplify without raising and keep their value on special-class assignments.",
        "note": "FP and string equivalence is checked on sampled/special-class assignments, not decided; Z3 operators claripy cannot produce (bvsmod, sign_extend survives no simplification) are outside the domain.",
    },
    "C10": {
        "level": "exploration",
        "technique": 'property-based testing: generated Boolean expressions and solver histories with a one-sided validity oracle (exhaustive evaluation / Z3 / brute-force model set)',
        "text": 'Generated-input search: whenever is_true/is_false (module functions, Bool methods, and every exact solver frontend, with and without extras, also on solvers derived by branch/blank_copy/split/combine/merge) answers True, the claim is checked against all assignments of the written tree, a Z3 validity query (incl. FP), or the brute-force model set of the solver. False answers are never checked.',
        "note": 'Brute-force model-set reference is exact only within 17 variable bits (4 four-bit variables + 1 Boolean); latitude of DESIGN 3.2 (eval may return any feasible subset of the right size; empty result or UnsatError when no value exists; semantically constant queries answered without the solver). One open known finding (C10-concrete-fp-rounding: concrete FP folding ignores the rounding mode; identified by a per-node predicate, see DESIGN.md section 11).',
    },
    "C11": {
        "level": "exploration",
        "technique": 'stateful property-based testing: generated and bounded-exhaustive solver histories checked after every step against a brute-force model set',
        "text": 'Generated-input search over operation histories on Solver and SolverCacheless (reuse off/on): random histories, cache-directed scenario rounds that repeat the same queries after further adds / branches, and every sequence of length <=3 (quick) / <=4 (thorough) over a 10-operation alphabet; plus histories on SolverStrings / Solver / SolverCacheless over string variables confined to generated finite domains, judged by the Python SMT-LIB string semantics on the explicit list of domain assignments (a query on which the sequence solver of Z3 gives up is counted, not judged). Each answer is compared with the model set over all 2^17 assignments maintained from the constraints the harness added.',
        "note": 'Brute-force model-set reference is exact only within 17 variable bits (4 four-bit variables + 1 Boolean); latitude of DESIGN 3.2 (eval may return any feasible subset of the right size; empty result or UnsatError when no value exists; semantically constant queries answered without the solver).',
    },
    "C12": {
        "level": "exploration",
        "technique": 'stateful property-based testing: generated SolverComposite histories (incl. split/combine/merge) vs a brute-force model set that knows nothing about children',
        "text": 'Generated-input search over histories on SolverComposite (default, track=True, reuse on) whose constraints connect and disconnect variable groups in generated orders, with branch, simplify, split, combine, merge and blank_copy, directed scenarios (exhaust two groups then bridge them, helper children left by min/max of unconstrained terms, spanning queries before a branch) and the finite-domain string histories of C11; every answer is checked against the brute-force model set; simplify() must preserve the model set of the stored constraints.',
        "note": 'Brute-force model-set reference is exact only within 17 variable bits (4 four-bit variables + 1 Boolean); latitude of DESIGN 3.2 (eval may return any feasible subset of the right size; empty result or UnsatError when no value exists; semantically constant queries answered without the solver).',
    },
    "C13": {
        "level": "exploration",
        "technique": 'stateful property-based testing: generated histories on replacement/hybrid frontends; equality with the brute-force model set in exact configurations, containment in approximate mode',
        "text": 'Generated-input search over histories on SolverReplacement (default, auto_replace=False) and SolverHybrid: exact configurations are checked for equality with the brute-force model set, approximate mode (exact=False) for containment (never unsat on a satisfiable set, min/max bounds, eval(<n results) contains all feasible values, solution True for feasible values).',
        "note": 'Brute-force model-set reference is exact only within 17 variable bits (4 four-bit variables + 1 Boolean); latitude of DESIGN 3.2 (eval may return any feasible subset of the right size; empty result or UnsatError when no value exists; semantically constant queries answered without the solver). On an unsatisfiable set, answers of replacement-based frontends that follow from a replacement are accepted (same status as the concrete-expression shortcut).',
    },
    "C14": {
        "level": "exploration",
        "technique": 'stateful property-based testing: interleaved histories on a tree of branched solvers with per-branch brute-force model sets and differential isolated replay',
        "text": "Generated-input search over interleavings on up to 8 live branches for every exact frontend class (reuse off/on). A wrong answer is re-run on the failing solver's own line of operations alone; only if it disappears there is it reported as a leak between branches (otherwise it is attributed to C11/C12/C13).",
        "note": 'Brute-force model-set reference is exact only within 17 variable bits (4 four-bit variables + 1 Boolean); latitude of DESIGN 3.2 (eval may return any feasible subset of the right size; empty result or UnsatError when no value exists; semantically constant queries answered without the solver).',
    },
    "C15": {
        "level": "exploration",
        "technique": 'stateful property-based testing: generated solver tuples merged / combined / split, result model sets computed by set algebra on brute-force model sets',
        "text": "Generated-input search: 2-3 solvers built by independent sub-histories (branches of an ancestor or unrelated, caches populated by queries), then merge (with/without ancestor), combine or split; the result's answers are checked against union/intersection/partition of the operands' brute-force model sets; split parts must have variable-disjoint constraint groups and be jointly equivalent.",
        "note": "Brute-force model-set reference is exact only within 17 variable bits (4 four-bit variables + 1 Boolean); latitude of DESIGN 3.2 (eval may return any feasible subset of the right size; empty result or UnsatError when no value exists; semantically constant queries answered without the solver). 'Every conjunct exactly once' is checked as model-set equivalence.",
    },
    "C16": {
        "level": "exploration",
        "technique": 'stateful property-based testing: tracked-solver histories reaching unsatisfiability through generated add orders; core checked for element type, membership and unsatisfiability by brute force',
        "text": 'Generated-input search on Solver/SolverComposite/SolverHybrid with track=True: contradiction families (recognised by the cheap syntactic check, found only by Z3, False itself) added in generated orders and batchings with queries, branches and provenance-tagged constraints interleaved, half of the cases directed (query and/or branch before the last member arrives); every unsat_core() result must be empty on a satisfiable solver and otherwise consist of added constraints (or their top-level conjuncts) whose conjunction has an empty brute-force model set.',
        "note": 'Brute-force model-set reference is exact only within 17 variable bits (4 four-bit variables + 1 Boolean); latitude of DESIGN 3.2 (eval may return any feasible subset of the right size; empty result or UnsatError when no value exists; semantically constant queries answered without the solver). One open known finding (cores list simplified forms after simplify()).',
    },
    "C18": {
        "level": "exploration",
        "technique": 'property-based testing: generated expressions and solver histories pickled in-process and into child processes with other hash seeds; structural-dump and model-set oracles',
        "text": 'Generated-input search: expressions of all sorts (annotated, FP, strings) must unpickle to the same object in-process, and in children with PYTHONHASHSEED 0/1/12345 to a structurally equal expression that is hash-consed with an identical rebuild; solver histories with pickle steps (single, every live solver in one dump, directed: pickled with unchecked adds / shared children / full caches) on every frontend class keep answering per the brute-force model set; a third of the pickles keep the copy as a twin that receives the same later operations and must give equal answers wherever the answer is determined by the state of the solver -- which decides approximate mode (SolverHybrid with exact=False).',
        "note": 'Brute-force model-set reference is exact only within 17 variable bits (4 four-bit variables + 1 Boolean); latitude of DESIGN 3.2 (eval may return any feasible subset of the right size; empty result or UnsatError when no value exists; semantically constant queries answered without the solver).',
    },
    "C02": {
        "level": "exploration",
        "technique": "property-based testing: generated and enumerated FP operation trees (all 5 rounding modes, boundary operand pools) vs Z3's FPA rewriter on an independently built term",
        "text": "Generated-input search plus a complete enumeration of boundary-pool x boundary-pool x {add,sub,mul,div} x 5 rounding modes and x 6 comparisons for both sorts (and all unary/conversion operations over the pool): the value claripy folds (or, if it does not fold, the value of its Z3 translation) must equal, bit for bit and NaN-as-NaN, the value Z3's rewriter gives an independently built term; symbolic trees are compared through BackendZ3 under sampled boundary assignments; FPV(double, FLOAT) construction is checked against RNE narrowing. Unspecified results (to_sbv/to_ubv of NaN/inf/out-of-range, NaN bits) are skipped, decided from the exact rational operand.",
        "note": "Trusts Z3's ground FPA evaluation; symbolic FP trees are compared on sampled assignments only, never by FP solving.",
    },
    "C03": {
        "level": "exploration",
        "technique": "property-based testing: generated and enumerated string operation trees vs two independent references (Z3 sequence rewriter on code-point literals, scalar Python SMT-LIB semantics); folded vs solved vs model-evaluated",
        "text": "Generated trees over an alphabet of NUL, backslash, escape-looking text, regex metacharacters, non-ASCII and astral code points with boundary 64-bit indices, plus an enumeration of every operation over an 18-string x 7-index pool: the folded value, the value of the BackendZ3 translation under the assignment, and the value computed under a cached model (ModelCache.eval_ast) must all equal the reference; every string constant must reach Z3 as exactly its code points.",
        "note": "A disagreement between the two references would be counted and not reported; none occurs. Strings above U+2FFFF are outside SMT-LIB and not generated.",
    },
    "C20": {
        "level": "exploration",
        "technique": "stress fuzzing with real threads: generated solver histories run concurrently by 2-16 threads over shared hash-consed expressions, varied switch intervals, every answer checked against a brute-force model set and against solo runs, plus directed threaded histories (wide cached-model evaluations, same-named annotated variables through backends.z3.simplify, switch interval 1e-6) compared answer by answer with the same history run alone; crashes of the interpreter caught by running cases in child processes",
        "text": "Deliberately weak: the harness does not control the interleaving. 2-16 real threads start behind a barrier and run generated histories on their own solver objects (Solver, SolverCacheless, SolverComposite, SolverHybrid) over shared variable names, so hash-consed ASTs, their error sets and the simplification cache are shared while Z3 contexts and conversion caches are thread-local; one thread keeps calling backends.z3.downsize(). Every answer is checked against the thread's brute-force model set (which pins the deterministic answers to the solo-run values); a history failing alone is attributed to C11-C13; a failure must reproduce in 1 of 3 immediate repeats; interpreter crashes are pinned to the running case through a per-case log written by a child process and confirmed by re-runs.",
        "note": "Can only show presence of races: a narrow window may never fire under the GIL. Evidence reports the number of (threads x histories x switch-interval) runs.",
    },
    "C21": {
        "level": "exploration",
        "technique": "bounded-exhaustive enumeration + property-based testing: every pair of canonical strided intervals of width 1-3 (and a third / all at width 4) per transfer function, generated wide intervals with sampled members; containment of concrete results in the member set of the abstract result",
        "text": "For every binary operation, comparison, unary operation, extension and extraction of StridedInterval, all operand pairs over all canonical intervals of width 1-3 are enumerated (width 4: a seed-selected third in the quick tier, all in the thorough tier) and every concrete result op(x,y) over the operands' members must lie in the member set of the abstract result, computed from (bits, stride, lb, ub) alone; comparisons must contain every truth value that occurs. Generated intervals at 8-64 bits are checked on sampled members. Chains: every result of a first operation (widths 3, 4) that is not a canonical form is fed to every second operation. Exhaustive on the enumerated sub-domain, exploration beyond it.",
        "note": "Signed division is an open finding (floor rounding pinned by the repository's tests): a failure is attributed to it by a predicate that recomputes it on the failing input (every missing quotient comes from operands of different sign with a non-zero remainder), any other failure is a violation, and the operation is excluded (counted) at wide widths.",
    },
    "C22": {
        "level": "exploration",
        "technique": "bounded-exhaustive enumeration + property-based testing: all pairs (width 1-3, sampled/all at width 4) and triples (width 2, sampled/all at width 3) of canonical strided intervals for join/meet/widen, all canonical intervals of width 1-4 for the queries; member-set oracle",
        "text": "union / least_upper_bound / pseudo_join / widen must contain every operand, intersection every common member; eval(n), min/max (signed and unsigned), cardinality, solution(v) for every v, is_empty/is_integer/is_top must agree exactly with the member set computed from (bits, stride, lb, ub). Enumerated over all canonical intervals of small width, generated with sampled members at 8-64 bits; at 8-64 bits cardinality, extrema, membership and small evals are also checked against closed forms, with huge cardinalities generated on purpose.",
        "note": "Off-lattice upper bounds (writable by a caller, meaning undocumented) are outside the oracle; widen is only checked for containment.",
    },
    "C23": {
        "level": "exploration",
        "technique": "bounded enumeration + property-based testing: DiscreteStridedIntervalSets and region ValueSets over canonical small-width intervals, member-set oracle per member / per region",
        "text": "Every operation of DiscreteStridedIntervalSet (arithmetic, bitwise, shifts, division, concat, extract, extensions, comparisons, union / intersection / widen, collapse / normalize, eval / cardinality) over sets of <= 2 width-2 intervals against every such set / interval / integer (also with the plain interval first and the set second) is enumerated (thorough: all, quick: a seed-selected eighth), sets of <= 3 members at widths 3-8 are generated; ValueSets with 1-3 regions are generated with their operations (+, -, %, & incl. the mask special cases, vs - vs, union / intersection / widen with value sets and intervals, full extract, ==, !=, queries). The result must contain op(x, y) for every member x and y (per region for value sets), comparisons every truth value that occurs, intersections the common members; queries must agree with the member sets.",
        "note": "Placeholder methods (ValueSet.concat / reverse / LShR / partial extract) are outside the oracle; failures reproducible on a single member interval are attributed to C21/C22; operations that reject an operand type (ClaripyVSAOperationError) count as declined.",
    },
    "C24": {
        "level": "exploration",
        "technique": "property-based testing: generated operation trees over SI-annotated variables, ALL assignments inside the intervals enumerated (numpy) as the oracle for BackendVSA's abstract value and SolverVSA's answers",
        "text": "Generated BV/Bool trees (arithmetic, bitwise, shifts by constants and variables, extract/concat/extensions, comparisons, And/Or/Not, nested If, equality / if-then-else between truth values, comparisons of two functions of one variable, union/intersection/widen at the root) over 1-3 variables of width 2-6 (plus byte reversal of 16-bit values over one 8- or 16-bit variable) annotated with intervals drawn from all canonical forms; every concrete value over all admissible assignments must be in the member set of backends.vsa.convert(expr) (truth values for Booleans); SolverVSA (with generated constraints) must not exclude a feasible value in eval (when it returns fewer than n), min, max, solution, nor claim unsat when a model exists. Declining (BackendError / ClaripyFrontendError) is allowed.",
        "note": "Division only by non-zero constants; set operations only at the root or under one binary operation; widths <= 6 (16 for the byte-reversal cases) so that all assignments can be enumerated.",
    },
    "C25": {
        "level": "exploration",
        "technique": "property-based testing + bounded enumeration: generated comparison constraints over the shapes the balancer handles, ALL assignments enumerated (numpy) as the oracle for the returned satisfiability flag and bounds",
        "text": "Generated constraints (one- to four-level nestings of the operators the balancer moves, byte reversal over structured 4/8-bit operands, (dis)equalities between truth values), the complete set of one-variable shape x comparison x constant combinations at width 3 and an enumerated family of shifts over extended variables are passed to claripy.constraint_to_si and backends.vsa.constraint_to_si; all assignments (<= 2^16) are enumerated: if any satisfies the constraint the flag must be True, and for every returned (expression, bound) the expression's value under every satisfying assignment must be a member of the bound's member set (reversed intervals read as delayed byte swaps). End to end, SolverReplacement(complex_auto_replace) and SolverHybrid(exact=False) must keep every feasible value of each variable within [min, max] and stay satisfiable.",
        "note": "Claripy errors escaping constraint_to_si are counted in evidence, other exceptions are violations when the constraint has a satisfying assignment; variables are unannotated (TOP).",
    },
    "C26": {
        "level": "exploration",
        "technique": "property-based testing: generated constraint sets pinning boundary values of every sort; every value returned by eval/batch_eval/min/max re-asserted in an independent Z3 query built from the IR",
        "text": "Generated constraint sets over bit-vectors (width 1..256), floats (both sorts, all special classes, generated rounding modes) and strings (any code point) on Solver, SolverCacheless, SolverComposite and SolverStrings; each query is issued twice (second answer may come from the model cache); each returned Python value is type/range-checked, re-encoded independently (IEEE bits, code points) and must be satisfiable together with the independently rebuilt constraints.",
        "note": "Z3 decides the re-assertion (timeouts inconclusive); constant query expressions on unsatisfiable sets are exempt per DESIGN 3.2; fp.to_sbv/to_ubv not used in queries.",
    },
    "C17": {
        "level": "fault_enumeration",
        "technique": "fault injection over generated solver histories: every (operation, solver-check index) position enumerated per history, fault kinds x reasons, answers afterwards vs a brute-force model set",
        "text": "Generated histories (random C11/C12-style and fault-directed scenarios with several constraint groups, probes, a branch and re-queries) on Solver, SolverCacheless, SolverComposite and SolverHybrid; a counting pass learns how many backend checks each operation performs, then the history is re-run once per (operation, check index) with z3.Solver.check made to report unknown at exactly that call (without / after running the real check; reasons timeout, resource limit, canceled) or to raise z3.Z3Exception as the sequence solver and the memory limit of Z3 do. The faulted operation must raise a ClaripyError other than UnsatError, and every later answer of that solver and of branches taken afterwards is compared with the brute-force model set. Positions are enumerated per generated history, histories are sampled.",
        "note": "The fault is injected at the z3.Solver.check boundary from outside claripy (models timeout / resource limit / interrupt as Z3 reports them); brute-force reference exact within 17 variable bits; a history that already fails without any fault is attributed to C11-C13.",
    },
    "C19": {
        "level": "exploration",
        "technique": "controlled-schedule exploration: harness-owned line-level scheduler, complete state-space DFS for 1-2 threads, preemption-bounded DFS and generated schedules for 3 threads, invariant after every step",
        "text": "The harness owns the scheduler (trace function yields before every line of _enter_z3/_exit_z3/z3_condom and the wrapped bodies) and substitutes the module's gc and lock with a model flag and a scheduler-aware lock. For every 1- and 2-thread configuration of nested call programs (incl. bodies raising Z3Exception or a foreign exception, and nested errors that leave the outer call, each followed by a further call) and both initial GC states, every scheduling choice in every reachable state is explored; 3-thread configurations up to a preemption bound plus generated schedules. After every step: flag disabled while any call is in progress, count >= 0, no deadlock; at the end flag restored, count 0, no underflow logged. In addition, generated solver histories on seven frontend configurations run under the real collector with Z3_solver_check / Z3_solver_check_assumptions wrapped from outside claripy: the collector must be disabled whenever one is entered and restored after every operation.",
        "note": "Line granularity only (no bytecode-level interleavings inside one line); the lock and GC models are the harness's; exits 2 (not a violation) if the module-level names it rebinds disappear.",
    },
}

NOT_APPLICABLE = {}
