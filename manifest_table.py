"""What is registered in MANIFEST.json (edit here, then run gen_manifest.py)."""

CHECKS = {
    "C01": {
        "level": "exploration",
        "technique": "property-based testing: generated operation trees (Hypothesis + bounded enumeration) vs independent evaluator and Z3 equivalence oracle",
        "text": "Generated-input search: random typed BV/Bool trees, rewrite-shaped templates and an exhaustive enumeration of two-operator shapes at width<=3 are built through the public API and compared, for all assignments (small widths) or by a Z3 validity query, with an independently written semantics. No counterexample in the explored space; absence elsewhere is not claimed.",
        "note": "Trusts Z3's bit-vector decision procedure and the three independently written reference semantics agreeing; per-case Z3 timeouts are counted inconclusive.",
    },
}

NOT_APPLICABLE = {}
