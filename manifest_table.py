"""What is registered in MANIFEST.json (edit here, then run gen_manifest.py)."""

CHECKS = {
    "C01": {
        "level": "exploration",
        "technique": "property-based testing: generated operation trees (Hypothesis + bounded enumeration) vs independent evaluator and Z3 equivalence oracle",
        "text": "Generated-input search: random typed BV/Bool trees, rewrite-shaped templates and an exhaustive enumeration of two-operator shapes at width<=3 are built through the public API and compared, for all assignments (small widths) or by a Z3 validity query, with an independently written semantics. No counterexample in the explored space; absence elsewhere is not claimed.",
        "note": "Trusts Z3's bit-vector decision procedure and the three independently written reference semantics agreeing; per-case Z3 timeouts are counted inconclusive.",
    },
    "C04": {
        "level": "exploration",
        "technique": "property-based testing / fuzzing: generated extreme-argument operation trees (BV, FP, strings) with an exception-type oracle, memory limit and hang watchdog",
        "text": "Generated-input search for crashes: trees from the BV/FP/string grammars in extreme-constant mode and all rewrite templates are built through the public API under RLIMIT_AS and a watchdog; any exception other than a documented ClaripyError whose condition really holds on the tree is a violation. Shows absence of crashes only on the explored cases.",
        "note": "Memory exhaustion is detected through RLIMIT_AS (6 GiB); a hang needs >10 s in the worker and >100 s alone in a fresh process, otherwise it is counted inconclusive.",
    },
}

NOT_APPLICABLE = {}
