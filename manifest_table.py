"""What is registered in MANIFEST.json (edit here, then run gen_manifest.py)."""

CHECKS = {
    "C01": {
        "level": "exploration",
        "technique": "property-based testing: generated operation trees (Hypothesis + bounded enumeration) vs independent evaluator and Z3 equivalence oracle",
        "text": "Generated-input search: random typed BV/Bool trees, rewrite-shaped templates and an exhaustive enumeration of two-operator shapes at width<=3 are built through the public API and compared, for all assignments (small widths) or by a Z3 validity query, with an independently written semantics. No counterexample in the explored space; absence elsewhere is not claimed.",
        "note": "Trusts Z3's bit-vector decision procedure and the three independently written reference semantics agreeing; per-case Z3 timeouts are counted inconclusive.",
    },
    "C04": {
        "level": "exploration",
        "technique": "property-based testing / fuzzing: generated extreme-argument operation trees (BV, FP, strings) with an exception-type oracle, memory limit and hang watchdog",
        "text": "Generated-input search for crashes: trees from the BV/FP/string grammars in extreme-constant mode and all rewrite templates are built through the public API under RLIMIT_AS and a watchdog; any exception other than a documented ClaripyError whose condition really holds on the tree is a violation. Shows absence of crashes only on the explored cases.",
        "note": "Memory exhaustion is detected through RLIMIT_AS (6 GiB); a hang needs >10 s in the worker and >100 s alone in a fresh process, otherwise it is counted inconclusive.",
    },
    "C05": {
        "level": "exploration",
        "technique": "property-based testing: recomputation oracle over every AST node produced by generated constructions, substitutions, annotation edits and Z3 abstraction",
        "text": "Generated-input search: for every node of every AST produced while building generated BV/Bool/FP/string trees (incl. annotated and fully concrete ones), simplifying them through Z3, substituting, editing annotations and applying the ITE utilities, the reported width, variable set, symbolic flag, depth, leaf list and concrete value are recomputed independently from the node's arguments (and from the Z3 sort / free constants) and compared.",
        "note": "Trusts the independent AST interpreter for concrete values and Z3's sort/free-constant inspection; only generated expressions are covered.",
    },
    "C06": {
        "level": "exploration",
        "technique": "stateful property-based testing: generated histories of build/annotate/drop+gc/pickle/rebuild steps with a pairwise deep-structural-equality invariant",
        "text": "Generated histories (<=40 steps) over a pool of live expressions with annotation field values built to collide under Python's hash; after every step all pairs of live expressions satisfy `a is b` iff deep structural equality computed without hashes, and non-rewriting constructors return exactly what was requested. Failing histories are ddmin-reduced.",
        "note": "Annotation identity is class+fields for value-semantics classes and object identity for classes without __eq__/__hash__; annotation tuples are ordered, as claripy stores them.",
    },
    "C07": {
        "level": "exploration",
        "technique": "property-based testing: annotated operation trees with a reachability oracle on annotation instances after every construction step",
        "text": "Generated trees (all rewrite templates uniformly, random, small, concrete) with eliminatable / pinned / relocatable annotation instances on leaves and inner nodes; after each construction step pinned instances reachable from the arguments must be reachable from the result and relocatable ones of direct arguments must be on the result; claripy.simplify keeps top-level and direct-argument relocatable annotations; solver simplify/min/max/eval keep SimplificationAvoidance-annotated constraints as the same objects; the meaning oracle of C01 runs too.",
        "note": "For SolverComposite, And-rooted annotated constraints are out of scope (the composite stores a conjunction as its conjuncts by design).",
    },
    "C08": {
        "level": "exploration",
        "technique": "property-based testing: generated expressions and utility arguments checked against evaluator-level specifications (exhaustive assignments at small widths, Z3 equivalence otherwise)",
        "text": "Generated-input search over replace / replace_dict / canonicalize / identical / excavate_ite / burrow_ite / ite_cases / ite_dict / reverse_ite_cases / chop / get_bytes: each result is compared with an executable specification of the utility (IR-level substitution, first-true-case, table lookup, byte slicing, injective sort-preserving renaming, existence of a variable bijection for identical()==True) on all assignments at <=10 variable bits, sampled assignments plus a Z3 validity query above.",
        "note": "identical(): only True answers are checked; reverse_ite_cases: exhaustiveness and per-case correctness, not exclusivity (not promised).",
    },
}

NOT_APPLICABLE = {}
