#!/bin/bash
# Offline, idempotent: install the few third-party packages the checks need into /verif/.deps
set -e
cd "$(dirname "$0")"
PY=/venv/bin/python
need=""
for m in numpy jsonschema hypothesis atheris; do
  if ! PYTHONPATH="$PWD/.deps" $PY -c "import $m" >/dev/null 2>&1; then need="$need $m"; fi
done
if [ -n "$need" ]; then
  mkdir -p .deps
  PIP_NO_INDEX=1 /venv/bin/pip install --quiet --no-index --find-links /opt/veriftools/wheels --target .deps $need >/dev/null 2>&1 || \
  PIP_NO_INDEX=1 /venv/bin/pip install --no-index --find-links /opt/veriftools/wheels --target .deps $need
fi
PYTHONPATH="$PWD/.deps" $PY -c "import numpy, jsonschema, hypothesis, z3" 
$PY -m compileall -q vk >/dev/null 2>&1 || true
echo "setup ok"
